----------------------------- MODULE TracerConf -----------------------------
(***************************************************************************)
(* Conformance of the real code with the mechanism specification           *)
(* Tracer.tla: for every behaviour TLC generated from Tracer.tla, replayed *)
(* into pysnark on the recording backend, the final private witness, every *)
(* emitted constraint (coefficient per wire), the values and kinds of all  *)
(* returned objects and the raise flag must be exactly the model's.        *)
(* A mismatch is MODEL-DRIFT: the code no longer does what the mechanism   *)
(* spec says (the contract is judged separately, on the code's own trace). *)
(***************************************************************************)
EXTENDS Integers, Sequences, TLC, Json

CONSTANT TraceFile
Data  == JsonDeserialize(TraceFile)
Pairs == Data.pairs

VARIABLE tid
Init == tid \in 1..Len(Pairs)
Next == UNCHANGED tid
Spec == Init /\ [][Next]_tid

M == Pairs[tid].model
I == Pairs[tid].impl

Inv_Raise   == M.raised = I.raised
Inv_Witness == ~M.raised => M.wit = I.wit
Inv_Cons    == ~M.raised => (M.ncons = Len(I.cons) /\ \A k \in DOMAIN I.cons : \A j \in 1..3 : \A w \in DOMAIN I.cons[k][j] : M.cons[k][j][w] = I.cons[k][j][w])
Inv_Objects == ~M.raised => (M.vals = I.vals /\ M.kinds = I.kinds)
=============================================================================
