------------------------------ MODULE Poseidon ------------------------------
(***************************************************************************)
(* Plain reference of the Poseidon permutation and sponge (C20), over the  *)
(* integers modulo a prime P small enough for TLC's native arithmetic.     *)
(* Parameters: state width t, RF full rounds (half before, half after the  *)
(* RP partial rounds), S-box x^a, round constants rc[round][i], MDS        *)
(* matrix m[i][j] (state' = m * state as a column vector).  Sponge:        *)
(* capacity element first, rate t-1, 10* padding, output = the rate part.  *)
(***************************************************************************)
EXTENDS Integers, Sequences

RECURSIVE PowMod(_, _, _)
PowMod(x, e, P) == IF e = 0 THEN 1 ELSE (x * PowMod(x, e - 1, P)) % P

RECURSIVE Dot(_, _, _, _)
Dot(row, s, j, P) == IF j > Len(s) THEN 0 ELSE (row[j] * s[j] + Dot(row, s, j + 1, P)) % P

Mix(s, par, P) == [i \in 1..par.t |-> Dot(par.m[i], s, 1, P)]
AddRC(s, r, par, P) == [i \in 1..par.t |-> (s[i] + par.rc[r][i]) % P]

FullRound(s, r, par, P) ==
    LET u == AddRC(s, r, par, P) IN Mix([i \in 1..par.t |-> PowMod(u[i], par.a, P)], par, P)
PartialRound(s, r, par, P) ==
    LET u == AddRC(s, r, par, P) IN Mix([i \in 1..par.t |-> IF i = 1 THEN PowMod(u[i], par.a, P) ELSE u[i]], par, P)

RECURSIVE Rounds(_, _, _, _)
Rounds(s, r, par, P) ==
    IF r > par.RF + par.RP THEN s
    ELSE Rounds(IF r <= par.RF \div 2 \/ r > par.RF \div 2 + par.RP THEN FullRound(s, r, par, P) ELSE PartialRound(s, r, par, P),
                r + 1, par, P)

Permute(s, par, P) == Rounds(s, 1, par, P)

\* 10* padding to a multiple of the rate t-1 (a full block of padding when the length already is a multiple)
RECURSIVE ZeroSeq(_)
ZeroSeq(n) == IF n <= 0 THEN <<>> ELSE <<0>> \o ZeroSeq(n - 1)
Rate(par) == par.t - 1
Pad(msg, par) == msg \o <<1>> \o ZeroSeq(Rate(par) - (Len(msg) % Rate(par)) - 1)

RECURSIVE Absorb(_, _, _, _)
Absorb(state, padded, par, P) ==
    IF padded = <<>> THEN state
    ELSE LET blk == SubSeq(padded, 1, Rate(par))
             st  == [i \in 1..par.t |-> IF i = 1 THEN state[1] ELSE (state[i] + blk[i - 1]) % P]
         IN Absorb(Permute(st, par, P), SubSeq(padded, Rate(par) + 1, Len(padded)), par, P)

Sponge(msg, par, P) == LET s == Absorb([i \in 1..par.t |-> 0], Pad(msg, par), par, P) IN SubSeq(s, 2, par.t)
=============================================================================
