SPECIFICATION Spec
CONSTANT MaxLen = 7
CONSTANT MaxDepth = 2
CONSTANT Fns = {"f", "g"}
INVARIANT UniqueCalls
INVARIANT UniqueBlocks
INVARIANT GlueShape
INVARIANT SplitSeesAll
CHECK_DEADLOCK FALSE
