SPECIFICATION Spec
INVARIANT Inv_ToBits
INVARIANT Inv_FromBits
INVARIANT Inv_BitLen
INVARIANT Inv_Pack
INVARIANT Inv_Unpack
INVARIANT Inv_RefSane
CHECK_DEADLOCK FALSE
