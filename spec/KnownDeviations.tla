-------------------------- MODULE KnownDeviations --------------------------
(***************************************************************************)
(* Exact characterisations of the genuine defects recorded in              *)
(* /verif/known_findings.json.  A violation of a contract invariant is set *)
(* aside only if the finding is listed as open there (its id is in         *)
(* Active) AND the event lies inside the set characterised here; anything  *)
(* else is reported.  Every use prints a KNOWN line for the harness.       *)
(***************************************************************************)
EXTENDS Integers, Sequences, TLC

Note(id, what) == PrintT(<<"KNOWN", id, what>>)

IsActive(Active, id) == \E i \in DOMAIN Active : Active[i] = id

(* C04-truediv-int-errorpath: LinComb / int with error checks off (user    *)
(* ignore_errors or a false guard) and a dividend that the constant does   *)
(* not divide: the result reports value 0 while its wire expression is     *)
(* dividend * inverse(constant).                                           *)
KnownValLC(Active, ev, P) ==
    /\ IsActive(Active, "C04-truediv-int-errorpath")
    /\ ev.op = "bin" /\ ev.name = "truediv" /\ ev.out = "ok"
    /\ Len(ev.args) = 2 /\ Len(ev.args[1]) = 1 /\ Len(ev.args[2]) = 1
    /\ ev.args[1][1].k = "int" /\ ev.args[2][1].k = "pyint"
    /\ ~ev.args[1][1].w /\ ~ev.args[2][1].w /\ ev.args[2][1].v # 0
    /\ ev.args[1][1].v % (IF ev.args[2][1].v < 0 THEN -ev.args[2][1].v ELSE ev.args[2][1].v) # 0
    /\ Len(ev.res) = 1 /\ ev.res[1].v = 0 /\ ~ev.res[1].w
    /\ Note("C04-truediv-int-errorpath", <<ev.args[1][1].v, ev.args[2][1].v>>)

(* ----------------------------------------------------------------------- *)
(* C02 (uniqueness).  I is a Soundness instance, Alt the sequence of the   *)
(* result values under the adversarial witness.                            *)

(* C02-bitwise-const-free: x & c, x | c, x ^ c with a plain integer c      *)
(* return a fresh private value with no constraint at all.                 *)
KU_BitwiseConst(Active, I) ==
    /\ IsActive(Active, "C02-bitwise-const-free")
    /\ I.op \in {"and", "or", "xor"} /\ I.kinds \in {"Sc", "cS"}
    /\ I.ncons = 0 /\ Len(I.res) = 1
    /\ Note("C02-bitwise-const-free", <<I.op, I.kinds>>)

(* C02-divmod-quotient-free: floor division / modulo constrain             *)
(* quo*d = a - rem and 0 <= rem < d, but not the range of quo: for every   *)
(* r in 0..d-1 the pair ((a-r)/d in the field, r) is accepted.  The same   *)
(* gadget sits under >> by a secret and under fixed-point * / // %.        *)
(* Num, Den: the dividend and divisor the gadget sees; Scale: factor       *)
(* applied to the quotient afterwards (2^r for fixed-point //).            *)
QuoOK(q, r, Num, Den, Scale, P) == (q * Den) % P = ((Num - r) * Scale) % P

KU_DivShape(I, Alt, Num, Den, Scale, what, P) ==
    /\ Den > 0
    /\ CASE what = "quo" -> Len(Alt) = 1 /\ \E r \in 0..(Den - 1) : QuoOK(Alt[1], r, Num, Den, Scale, P)
          [] what = "rem" -> Len(Alt) = 1 /\ Alt[1] \in 0..(Den - 1)
          [] what = "both" -> Len(Alt) = 2 /\ Alt[2] \in 0..(Den - 1) /\ QuoOK(Alt[1], Alt[2], Num, Den, Scale, P)

Pow2(n) == IF n <= 0 THEN 1 ELSE 2 ^ n

KU_DivMod(Active, I, Alt, P) ==
    /\ IsActive(Active, "C02-divmod-quotient-free")
    /\ LET R == Pow2(I.resolution) IN
       \/ I.op = "floordiv" /\ I.kinds \in {"SS", "Sc", "cS"} /\ KU_DivShape(I, Alt, I.a, I.b, 1, "quo", P)
       \/ I.op = "mod"      /\ I.kinds \in {"SS", "Sc", "cS"} /\ KU_DivShape(I, Alt, I.a, I.b, 1, "rem", P)
       \/ I.op = "divmod"   /\ I.kinds \in {"SS", "Sc", "cS"} /\ KU_DivShape(I, Alt, I.a, I.b, 1, "both", P)
       \/ I.op = "rshift"   /\ I.kinds \in {"SS", "cS"} /\ I.b >= 0 /\ KU_DivShape(I, Alt, I.a, Pow2(I.b), 1, "quo", P)
       \/ I.op = "fxp_mul"      /\ KU_DivShape(I, Alt, I.a * I.b, R, 1, "quo", P)
       \/ I.op = "fxp_truediv"  /\ KU_DivShape(I, Alt, I.a * R, I.b, 1, "quo", P)
       \/ I.op = "fxp_floordiv" /\ KU_DivShape(I, Alt, I.a, I.b, R, "quo", P)
       \/ I.op = "fxp_mod"      /\ KU_DivShape(I, Alt, I.a, I.b, 1, "rem", P)
    /\ Note("C02-divmod-quotient-free", <<I.op, I.kinds>>)

KnownUnique(Active, I, Alt, P) == KU_BitwiseConst(Active, I) \/ KU_DivMod(Active, I, Alt, P)

(* C03 (enforcement) *)
KnownEnforced(Active, I, P) == FALSE
KnownSameRel(Active, I, P) == FALSE
=============================================================================
