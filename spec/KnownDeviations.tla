-------------------------- MODULE KnownDeviations --------------------------
(***************************************************************************)
(* Exact characterisations of the genuine defects recorded in              *)
(* /verif/known_findings.json.  A violation of a contract invariant is set *)
(* aside only if the finding is listed as open there (its id is in         *)
(* Active) AND the event lies inside the set characterised here; anything  *)
(* else is reported.  Every use prints a KNOWN line for the harness.       *)
(***************************************************************************)
EXTENDS Integers, Sequences, FiniteSets, TLC

Note(id, what) == PrintT(<<"KNOWN", id, what>>)

IsActive(Active, id) == \E i \in DOMAIN Active : Active[i] = id

(* C04-truediv-int-errorpath: LinComb / int with error checks off (user    *)
(* ignore_errors or a false guard) and a dividend that the constant does   *)
(* not divide: the result reports value 0 while its wire expression is     *)
(* dividend * inverse(constant).                                           *)
KnownValLC(Active, ev, P) ==
    /\ IsActive(Active, "C04-truediv-int-errorpath")
    /\ ev.op = "bin" /\ ev.name = "truediv" /\ ev.out = "ok"
    /\ Len(ev.args) = 2 /\ Len(ev.args[1]) = 1 /\ Len(ev.args[2]) = 1
    /\ ev.args[1][1].k = "int" /\ ev.args[2][1].k = "pyint"
    /\ ~ev.args[1][1].w /\ ~ev.args[2][1].w /\ ev.args[2][1].v # 0
    /\ ev.args[1][1].v % (IF ev.args[2][1].v < 0 THEN -ev.args[2][1].v ELSE ev.args[2][1].v) # 0
    /\ Len(ev.res) = 1 /\ ev.res[1].v = 0 /\ ~ev.res[1].w
    /\ Note("C04-truediv-int-errorpath", <<ev.args[1][1].v, ev.args[2][1].v>>)

(* ----------------------------------------------------------------------- *)
(* C02 (uniqueness).  I is a Soundness instance, Alt the sequence of the   *)
(* result values under the adversarial witness.                            *)

(* C02-bitwise-const-free: x & c, x | c, x ^ c with a plain integer c      *)
(* return a fresh private value with no constraint at all.                 *)
KU_BitwiseConst(Active, I) ==
    /\ IsActive(Active, "C02-bitwise-const-free")
    /\ I.op \in {"and", "or", "xor"} /\ I.kinds \in {"Sc", "cS"}
    /\ I.ncons = 0 /\ Len(I.res) = 1
    /\ Note("C02-bitwise-const-free", <<I.op, I.kinds>>)

(* C02-divmod-quotient-free: floor division / modulo constrain             *)
(* quo*d = a - rem and 0 <= rem < d, but not the range of quo: for every   *)
(* r in 0..d-1 the pair ((a-r)/d in the field, r) is accepted.  The same   *)
(* gadget sits under >> by a secret and under fixed-point * / // %.        *)
(* Num, Den: the dividend and divisor the gadget sees; Scale: factor       *)
(* applied to the quotient afterwards (2^r for fixed-point //).            *)
QuoOK(q, r, Num, Den, Scale, P) == (q * Den) % P = ((Num - r) * Scale) % P

KU_DivShape(I, Alt, Num, Den, Scale, what, P) ==
    /\ Den > 0
    /\ CASE what = "quo" -> Len(Alt) = 1 /\ \E r \in 0..(Den - 1) : QuoOK(Alt[1], r, Num, Den, Scale, P)
          [] what = "rem" -> Len(Alt) = 1 /\ Alt[1] \in 0..(Den - 1)
          [] what = "both" -> Len(Alt) = 2 /\ Alt[2] \in 0..(Den - 1) /\ QuoOK(Alt[1], Alt[2], Num, Den, Scale, P)

Pow2(n) == IF n <= 0 THEN 1 ELSE 2 ^ n

KU_DivMod(Active, I, Alt, P) ==
    /\ IsActive(Active, "C02-divmod-quotient-free")
    /\ LET R == Pow2(I.resolution) IN
       \/ I.op = "floordiv" /\ I.kinds \in {"SS", "Sc", "cS"} /\ KU_DivShape(I, Alt, I.a, I.b, 1, "quo", P)
       \/ I.op = "mod"      /\ I.kinds \in {"SS", "Sc", "cS"} /\ KU_DivShape(I, Alt, I.a, I.b, 1, "rem", P)
       \/ I.op = "divmod"   /\ I.kinds \in {"SS", "Sc", "cS"} /\ KU_DivShape(I, Alt, I.a, I.b, 1, "both", P)
       \/ I.op = "rshift"   /\ I.kinds \in {"SS", "cS"} /\ I.b >= 0 /\ KU_DivShape(I, Alt, I.a, Pow2(I.b), 1, "quo", P)
       \/ I.op = "fxp_mul"      /\ KU_DivShape(I, Alt, I.a * I.b, R, 1, "quo", P)
       \/ I.op = "fxp_truediv"  /\ KU_DivShape(I, Alt, I.a * R, I.b, 1, "quo", P)
       \/ I.op = "fxp_floordiv" /\ KU_DivShape(I, Alt, I.a, I.b, R, "quo", P)
       \/ I.op = "fxp_mod"      /\ KU_DivShape(I, Alt, I.a, I.b, 1, "rem", P)
    /\ Note("C02-divmod-quotient-free", <<I.op, I.kinds>>)

KnownUnique(Active, I, Alt, P) == KU_BitwiseConst(Active, I) \/ KU_DivMod(Active, I, Alt, P)

(* C03 (enforcement) *)
KnownEnforced(Active, I, P) == FALSE
KnownSameRel(Active, I, P) == FALSE

(* ----------------------------------------------------------------------- *)
(* C05 (agreement with Python semantics).  E is the judged event.          *)
KA1(E) == E.args[1][1]
KA2(E) == E.args[2][1]
TwoScalars(E) == Len(E.args) = 2 /\ Len(E.args[1]) = 1 /\ Len(E.args[2]) = 1

(* C05-bool-pow-zero-exponent: LinCombBool ** e ignores e (returns b # 0), so 0 ** 0 is 0 instead of 1.   *)
KR_BoolPow(Active, E) ==
    /\ IsActive(Active, "C05-bool-pow-zero-exponent")
    /\ E.op = "bin" /\ E.name = "pow" /\ TwoScalars(E) /\ KA1(E).k = "bool"
    /\ KA1(E).v = 0 /\ KA2(E).v = 0 /\ Len(E.res) = 1 /\ E.res[1].v = 0
    /\ Note("C05-bool-pow-zero-exponent", <<KA1(E).v, KA2(E).v>>)

(* C05-invert-unsigned: ~x on a secret integer returns the bitlength-bit unsigned complement 2^BL-1-x  *)
(* instead of Python's -x-1 (x >= 0; negative x raises).                                             *)
KR_Invert(Active, E, BL) ==
    /\ IsActive(Active, "C05-invert-unsigned")
    /\ E.op = "un" /\ E.name = "invert" /\ Len(E.args) = 1 /\ Len(E.args[1]) = 1 /\ KA1(E).k = "int"
    /\ KA1(E).v >= 0 /\ Len(E.res) = 1 /\ E.res[1].v = 2 ^ BL - 1 - KA1(E).v
    /\ Note("C05-invert-unsigned", <<KA1(E).v, BL>>)

(* C05-pow-secret-exponent-mod-p: x ** e and x << e with a secret e reduce the reported value modulo   *)
(* the field prime, so results outside 0..p-1 (negative or large) come back as their residue.        *)
KPow(a, e) == IF e <= 0 THEN 1 ELSE a ^ e
KR_PowModP(Active, E, P) ==
    /\ IsActive(Active, "C05-pow-secret-exponent-mod-p")
    /\ E.op = "bin" /\ E.name \in {"pow", "lshift"} /\ TwoScalars(E) /\ KA2(E).k = "int" /\ KA1(E).k \in {"int", "pyint"}
    /\ KA2(E).v >= 0 /\ Len(E.res) = 1
    /\ IF E.name = "pow"
       THEN LET exact == KPow(KA1(E).v, KA2(E).v) IN (exact < 0 \/ exact >= P) /\ E.res[1].v = exact % P
       ELSE KPow(2, KA2(E).v) >= P /\ E.res[1].v = KA1(E).v * (KPow(2, KA2(E).v) % P)
    /\ Note("C05-pow-secret-exponent-mod-p", <<E.name, KA1(E).v, KA2(E).v>>)

KnownRef(Active, E, BL, P) == KR_BoolPow(Active, E) \/ KR_Invert(Active, E, BL) \/ KR_PowModP(Active, E, P)

(* C05-negative-divisor-raises: // % divmod by a negative divisor (secret or constant) raise although   *)
(* the divisor is non-zero: the remainder range gadget only handles 0 <= rem < divisor.               *)
KX_NegDivisor(Active, E) ==
    /\ IsActive(Active, "C05-negative-divisor-raises")
    /\ E.op = "bin" /\ E.name \in {"floordiv", "mod", "divmod"} /\ TwoScalars(E)
    /\ KA2(E).v < 0 /\ E.out = "raise"
    /\ Note("C05-negative-divisor-raises", <<E.name, KA2(E).v>>)

KnownRaise(Active, E, BL, P) == KX_NegDivisor(Active, E)

(* ----------------------------------------------------------------------- *)
(* C07 (inertness under a false guard).  E is the body call that raised.   *)
(* C07-zero-divisor-raises-under-false-guard: / // % divmod by a SECRET whose value is 0 raise           *)
(* "Division by zero" even when error checks are off (false guard or ignore_errors).                  *)
KnownInert(Active, E) ==
    /\ IsActive(Active, "C07-zero-divisor-raises-under-false-guard")
    /\ E.op = "bin" /\ Len(E.args) = 2 /\ Len(E.args[2]) = 1 /\ E.args[2][1].k \in {"int", "fxp", "bool"}
    /\ \/ E.name \in {"truediv", "floordiv", "mod", "divmod"} /\ E.args[2][1].v = 0 /\ ~E.args[2][1].w
       \* x >> secret divides by 2**secret, which inside a false guard is computed from guard-scaled constants and is 0
       \/ E.name = "rshift"
    /\ E.out = "raise" /\ E.exc \in {"ValueError", "ZeroDivisionError"}
    /\ Note("C07-zero-divisor-raises-under-false-guard", <<E.name>>)

(* ----------------------------------------------------------------------- *)
(* C09 (oblivious control flow) *)
KnownCFRaise(Active, R) == FALSE

(* ----------------------------------------------------------------------- *)
(* C14 (fixed point) *)
(* C14-fxp-pow-mod-p: LinCombFxp ** n (n >= 2) reduces the reported representation modulo the field     *)
(* prime after every multiplication, so a negative power comes back as p - |rep| (and feeds the next  *)
(* multiplication in that form).                                                                      *)
KFloorDiv(a, d) == a \div d
RECURSIVE KPowFx(_, _, _, _)
KPowFx(A, n, R, P) == IF n <= 1 THEN A ELSE KFloorDiv(A * KPowFx(A, n - 1, R, P), R) % P
RECURSIVE KPowExact(_, _, _)
KPowExact(A, n, R) == IF n <= 1 THEN A ELSE KFloorDiv(A * KPowExact(A, n - 1, R), R)

KnownFxp(Active, E, RES, P) ==
    /\ IsActive(Active, "C14-fxp-pow-mod-p")
    /\ E.op = "bin" /\ E.name = "pow" /\ TwoScalars(E) /\ KA1(E).k = "fxp" /\ KA2(E).k = "pyint" /\ KA2(E).v >= 2 /\ KA2(E).v <= 6
    /\ Len(E.res) = 1
    /\ E.res[1].v = KPowFx(KA1(E).v, KA2(E).v, 2 ^ RES, P)
    /\ E.res[1].v # KPowExact(KA1(E).v, KA2(E).v, 2 ^ RES)
    /\ Note("C14-fxp-pow-mod-p", <<KA1(E).v, KA2(E).v>>)

(* ----------------------------------------------------------------------- *)
(* C18-systemexit-bypass: `raise SystemExit(n)` and the builtin exit(n) with n # 0 do not go through the    *)
(* interposed sys.exit and SystemExit never reaches sys.excepthook, so the exit hook sees a clean run and    *)
(* produces the proof artefacts although the process exits with a failure status.                          *)
KnownExitProves(Active, O) ==
    /\ IsActive(Active, "C18-systemexit-bypass")
    /\ O.mode \in {"raiseSE1", "builtinexit1"} /\ O.autoprove /\ O.status = 1 /\ O.prior # "caught1"
    /\ Note("C18-systemexit-bypass", <<O.mode, O.backend>>)

(* C18-stale-exit-code-after-caught-sysexit: sys.exit(n), n # 0, whose SystemExit the script catches leaves n     *)
(* recorded; if the script then ends with status 0 without another call of the interposed sys.exit (falls off     *)
(* the end, raise SystemExit(0), builtin exit(0)) the exit hook skips the proof although the run succeeded.       *)
KnownExitSkips(Active, O) ==
    /\ IsActive(Active, "C18-stale-exit-code-after-caught-sysexit")
    /\ O.prior = "caught1" /\ O.mode \in {"falloff", "raiseSE0", "builtinexit0"} /\ O.autoprove /\ O.status = 0 /\ ~O.artefacts
    /\ Note("C18-stale-exit-code-after-caught-sysexit", <<O.mode, O.backend>>)

(* ----------------------------------------------------------------------- *)
(* C19-specific-backend-reported-as-generic: importing backendbellman / backendbulletproofs / backendgg     *)
(* before the runtime also imports their generic base module, which comes first in the registry, so the     *)
(* selection reports the generic name (zkinterface / libsnark) while the specific field / proof system is   *)
(* in effect.  shadowed = Select!SpecificShadowed for this configuration, pred = the mechanism's outcome.  *)
KnownSelect(Active, shadowed, O, pred) ==
    /\ IsActive(Active, "C19-specific-backend-reported-as-generic")
    /\ shadowed /\ ~O.raised
    /\ O.name = pred.name /\ O.mod = pred.mod /\ O.field = pred.field /\ O.groth = pred.groth
    /\ Note("C19-specific-backend-reported-as-generic", <<O.name, O.field>>)

(* ----------------------------------------------------------------------- *)
(* C20 parameter selection *)
(* C20-params-follow-shadowed-name: consequence of C19's finding: with backendbellman / backendbulletproofs   *)
(* pre-imported the runtime reports "zkinterface", so the bn128 parameter set is used over the other field.   *)
KnownParams(Active, F) ==
    /\ IsActive(Active, "C20-params-follow-shadowed-name")
    /\ \E i \in DOMAIN F.pre : F.pre[i] \in {"zkifbellman", "zkifbulletproofs"}
    /\ F.backend_name = "zkinterface" /\ ~F.raised /\ F.setid = "x5_254"
    /\ Note("C20-params-follow-shadowed-name", <<F.pre, F.env>>)

(* ----------------------------------------------------------------------- *)
(* C12 context mixing *)
(* C12-global-one-in-subcircuit: LinComb.ONE / ONE_SAFE is created once in the main context; equations emitted     *)
(* inside a @subqap function that use it (zero tests, comparisons, assertions against plain integers) mention     *)
(* main/onex next to the sub-circuit's wires, and the backend's splitting step then aborts.                      *)
KnownCtxMix(Active, e) ==
    /\ IsActive(Active, "C12-global-one-in-subcircuit")
    /\ LET N == {e.a[i].n : i \in DOMAIN e.a} \cup {e.b[i].n : i \in DOMAIN e.b} \cup {e.c[i].n : i \in DOMAIN e.c}
           Ctxs == {n.ctx : n \in N} IN
       /\ Cardinality(Ctxs) = 2 /\ "main" \in Ctxs
       /\ \A n \in N : n.ctx = "main" => n.loc = "onex"
    /\ Note("C12-global-one-in-subcircuit", <<"equation mixes main/onex with a sub-circuit context">>)
=============================================================================
