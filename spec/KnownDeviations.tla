-------------------------- MODULE KnownDeviations --------------------------
(***************************************************************************)
(* Exact characterisations of the genuine defects recorded in              *)
(* /verif/known_findings.json.  A violation of a contract invariant is set *)
(* aside only if the finding is listed as open there (its id is in         *)
(* Active) AND the event lies inside the set characterised here; anything  *)
(* else is reported.  Every use prints a KNOWN line for the harness.       *)
(***************************************************************************)
EXTENDS Integers, Sequences, TLC

Note(id, what) == PrintT(<<"KNOWN", id, what>>)

IsActive(Active, id) == \E i \in DOMAIN Active : Active[i] = id

(* C04-truediv-int-errorpath: LinComb / int with error checks off (user    *)
(* ignore_errors or a false guard) and a dividend that the constant does   *)
(* not divide: the result reports value 0 while its wire expression is     *)
(* dividend * inverse(constant).                                           *)
KnownValLC(Active, ev, P) ==
    /\ IsActive(Active, "C04-truediv-int-errorpath")
    /\ ev.op = "bin" /\ ev.name = "truediv" /\ ev.out = "ok"
    /\ Len(ev.args) = 2 /\ Len(ev.args[1]) = 1 /\ Len(ev.args[2]) = 1
    /\ ev.args[1][1].k = "int" /\ ev.args[2][1].k = "pyint"
    /\ ~ev.args[1][1].w /\ ~ev.args[2][1].w /\ ev.args[2][1].v # 0
    /\ ev.args[1][1].v % (IF ev.args[2][1].v < 0 THEN -ev.args[2][1].v ELSE ev.args[2][1].v) # 0
    /\ Len(ev.res) = 1 /\ ev.res[1].v = 0 /\ ~ev.res[1].w
    /\ Note("C04-truediv-int-errorpath", <<ev.args[1][1].v, ev.args[2][1].v>>)
=============================================================================
