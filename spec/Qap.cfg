SPECIFICATION Spec
INVARIANT Inv_EqSat
INVARIANT Inv_PubLinked
INVARIANT Inv_OneContext
INVARIANT Inv_FnFilesLocal
INVARIANT Inv_SplitComplete
INVARIANT Inv_SameFn
INVARIANT Inv_Glue
CHECK_DEADLOCK FALSE
