SPECIFICATION IndSpec
CONSTANT MaxDepth = 3
CONSTANT RaiseKinds = {0, 1}
CONSTANT MaxLen = 1
VIEW NoHist
INVARIANT IndInv
INVARIANT TopLevelClean
PROPERTY RestoreOnEnd
CHECK_DEADLOCK FALSE
