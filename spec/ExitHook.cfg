SPECIFICATION Spec
CONSTANT NStmts = 2
INVARIANT Inv_ExitModuloKnown
INVARIANT Emit
CHECK_DEADLOCK FALSE
