SPECIFICATION Spec
CONSTANT NStmts = 3
INVARIANT Inv_ExitModuloKnown
INVARIANT Emit
CHECK_DEADLOCK FALSE
