----------------------------- MODULE TraceCore -----------------------------
(***************************************************************************)
(* Contract-layer trace specification shared by C01 (completeness) and C04 *)
(* (value = wire expression).  A batch of traces recorded from the real    *)
(* code on the recording backend is replayed: one TLC behaviour per trace, *)
(* one step per recorded public call.  The state carries the witness       *)
(* accumulated so far; every invariant is evaluated after every call.      *)
(***************************************************************************)
EXTENDS Integers, Sequences, TLC, Json, IOUtils, R1CS, KnownDeviations

CONSTANT TraceFile
Data   == JsonDeserialize(TraceFile)
Traces == Data.traces
Active == Data.active      \* ids of open known findings (from known_findings.json)

VARIABLES tid, l, pub, priv, raised
vars == <<tid, l, pub, priv, raised>>

Tr  == Traces[tid]
Evs == Tr.events
P   == Tr.P

Init == /\ tid \in 1..Len(Traces)
        /\ l = 0 /\ pub = <<>> /\ priv = <<>> /\ raised = FALSE

Call == /\ l < Len(Evs)
        /\ l' = l + 1 /\ tid' = tid
        /\ pub'  = pub  \o Evs[l + 1].npub
        /\ priv' = priv \o Evs[l + 1].npriv
        /\ raised' = (raised \/ Evs[l + 1].out = "raise")

Next == Call
Spec == Init /\ [][Next]_vars

Last == Evs[l]

---------------------------------------------------------------------------
(* C01: the recorded witness satisfies every constraint emitted so far.    *)
(* Witness values are append-only in the recorder, so it suffices to check *)
(* the constraints of the call just consumed against the witness so far.   *)
Inv_Sat ==
    (l >= 1 /\ ~Tr.ign /\ ~raised) =>
        \A i \in DOMAIN Last.ncons : Holds(Last.ncons[i], pub, priv, P)

(* C04: every secret-typed object returned (or changed in place) by the    *)
(* call has value == Eval(lc) on the recorded witness.                      *)
Secret(o) == o.k \in {"int", "bool", "fxp"}

ObjOK(o) == Secret(o) => (Scoped(o.lc, pub, priv) /\ Eval(o.lc, pub, priv, P) = o.m)

AllOK(s) == \A i \in DOMAIN s : ObjOK(s[i])

ValLCHere ==
    /\ AllOK(Last.res)
    /\ AllOK(Last.chg)
    /\ (Last.g.has => (Scoped(Last.g.lc, pub, priv) /\ Eval(Last.g.lc, pub, priv, P) = Last.g.m))
    /\ Scoped(Last.g.onelc, pub, priv) /\ Eval(Last.g.onelc, pub, priv, P) = Last.g.onem

Inv_ValLC ==
    l >= 1 => (ValLCHere \/ KnownValLC(Active, Last, P))

(* acceptance: every trace was consumed to its end *)
Done == l = Len(Evs)
=============================================================================
