------------------------------ MODULE TraceHash ------------------------------
(***************************************************************************)
(* C20: the traced hash gadgets equal a plain reference.  One initial      *)
(* state per recorded call (small prime field; parameters reduced mod P).  *)
(***************************************************************************)
EXTENDS Poseidon, TLC, Json, BigNat, FiniteSets

CONSTANT TraceFile
Data  == JsonDeserialize(TraceFile)
Cases == Data.cases

VARIABLE tid
Init == tid \in 1..Len(Cases)
Next == UNCHANGED tid
Spec == Init /\ [][Next]_tid
C == Cases[tid]
P == C.P

\* parameter sets arrive as limb sequences (the repository's constants); TLC reduces them modulo P itself
RedRow(row) == [j \in DOMAIN row |-> ModSmall(row[j], P)]
RedMat(mx)  == [i \in DOMAIN mx |-> RedRow(mx[i])]
ParamsOf(name) == LET raw == Data.params[name] IN
    [t |-> raw.t, RF |-> raw.RF, RP |-> raw.RP, a |-> raw.a, rc |-> RedMat(raw.rc), m |-> RedMat(raw.m)]
Par == ParamsOf(C.paramset)

In == [i \in DOMAIN C.input |-> C.input[i] % P]

Inv_Permute == (C.kind = "permute" /\ C.out = "ok") => C.output = Permute(In, Par, P)
Inv_Sponge  == (C.kind = "poseidon" /\ C.out = "ok") => C.output = Sponge(In, Par, P)
Inv_NoRaise == (C.kind \in {"permute", "poseidon", "ggh"} /\ C.expectok) => C.out = "ok"

\* subset-sum hash: sum of the coefficients selected by the bits, modulo the prime (coefficients: independent
\* SHA-512 derivation by the harness, handed over as constants)
RECURSIVE SubsetSum(_, _, _)
SubsetSum(bits, coefs, i) == IF i > Len(bits) THEN 0 ELSE (bits[i] * coefs[i] + SubsetSum(bits, coefs, i + 1)) % P
Inv_SubsetSum == (C.kind = "ggh" /\ C.out = "ok") => (C.output = <<SubsetSum(C.input, Data.ggh[C.pkey], 1)>> \/ C.knownplainpath)

\* the number of constraints does not depend on the input values: all cases of one (kind, shape) class agree
Inv_Count == \A j \in 1..Len(Cases) :
                (Cases[j].class = C.class /\ Cases[j].out = "ok" /\ C.out = "ok") => Cases[j].ncons = C.ncons
=============================================================================
