SPECIFICATION Spec
CONSTANT P = 0
CONSTANT MaxLen = 2
INVARIANT Hom
PROPERTY Immutable
CHECK_DEADLOCK FALSE
