SPECIFICATION Spec
INVARIANT PadInjective
INVARIANT PadShape
CHECK_DEADLOCK FALSE
