------------------------------- MODULE Select -------------------------------
(***************************************************************************)
(* C19: the backend in use is the one the configuration names.             *)
(*                                                                         *)
(* A configuration is (pre: the backend modules the script imported before *)
(* pysnark.runtime, in order; env: the value of PYSNARK_BACKEND or         *)
(* "unset"; loadable: which optional dependencies are present).  The       *)
(* mechanism part transcribes the three-stage selection of runtime.py and  *)
(* predicts the outcome; the contract part says what the outcome must be.  *)
(* TLC enumerates every configuration; each is run in a fresh interpreter. *)
(***************************************************************************)
EXTENDS Integers, Sequences, FiniteSets, TLC, Json

BN   == "21888242871839275222246405745257275088548364400416034343698204186575808495617"
BLS  == "52435875175126190479447740508185965837690552500527637822603658699938581184513"
C255 == "7237005577332262213973186563042994240857116359379907606001950938285454250989"
NOF  == "10000"

\* registry of runtime.py, in its documented order.  dep: optional dependency needed to load the module;
\* base: the module it re-exports (imports implicitly); field: the field the NAME stands for
Registry == <<
  [name |-> "libsnark",         mod |-> "pysnark.libsnark.backend",               dep |-> "libsnark",    base |-> "",                            field |-> BN],
  [name |-> "libsnarkgg",       mod |-> "pysnark.libsnark.backendgg",             dep |-> "libsnark",    base |-> "pysnark.libsnark.backend",    field |-> BN],
  [name |-> "qaptools",         mod |-> "pysnark.qaptools.backend",               dep |-> "qaptools",    base |-> "",                            field |-> BN],
  [name |-> "snarkjs",          mod |-> "pysnark.snarkjsbackend",                 dep |-> "",            base |-> "",                            field |-> BN],
  [name |-> "zkinterface",      mod |-> "pysnark.zkinterface.backend",            dep |-> "flatbuffers", base |-> "",                            field |-> BN],
  [name |-> "zkifbellman",      mod |-> "pysnark.zkinterface.backendbellman",     dep |-> "flatbuffers", base |-> "pysnark.zkinterface.backend", field |-> BLS],
  [name |-> "zkifbulletproofs", mod |-> "pysnark.zkinterface.backendbulletproofs", dep |-> "flatbuffers", base |-> "pysnark.zkinterface.backend", field |-> C255],
  [name |-> "nobackend",        mod |-> "pysnark.nobackend",                      dep |-> "",            base |-> "",                            field |-> NOF] >>

Names == {Registry[i].name : i \in DOMAIN Registry}
Deps  == {"libsnark", "qaptools", "flatbuffers"}
Idx(n) == CHOOSE i \in DOMAIN Registry : Registry[i].name = n
Entry(n) == Registry[Idx(n)]

CONSTANT MaxPre
VARIABLES pre, env, loadable
vars == <<pre, env, loadable>>

PreSeqs == UNION {[1..k -> Names] : k \in 0..MaxPre}
NoRepeat(s) == \A i, j \in DOMAIN s : i # j => s[i] # s[j]

Init == /\ pre \in {s \in PreSeqs : NoRepeat(s)}
        /\ env \in Names \cup {"unset", "bogus"}
        /\ loadable \in SUBSET Deps
Next == UNCHANGED vars
Spec == Init /\ [][Next]_vars

Loadable(n) == Entry(n).dep = "" \/ Entry(n).dep \in loadable

\* ---- mechanism: what runtime.py does
\* modules in sys.modules after the pre-imports (an import that fails leaves nothing behind; the script catches it)
PreOK == {i \in DOMAIN pre : Loadable(pre[i])}
InSysModules == ({Entry(pre[i]).mod : i \in PreOK} \cup {Entry(pre[i]).base : i \in PreOK}) \ {""}

Stage1 == {i \in DOMAIN Registry : Registry[i].mod \in InSysModules}
First(S) == CHOOSE i \in S : \A j \in S : i <= j

\* the field actually in effect for the zkinterface family is the one set by the LAST specific module imported
LastZk(s) == LET Z == {i \in DOMAIN s : s[i] \in {"zkifbellman", "zkifbulletproofs"} /\ Loadable(s[i])} IN
             IF Z = {} THEN BN ELSE Entry(s[CHOOSE i \in Z : \A j \in Z : j <= i]).field
GrothOn(s) == \E i \in DOMAIN s : s[i] = "libsnarkgg" /\ Loadable(s[i])

Outcome ==
    IF Stage1 # {}
    THEN LET e == Registry[First(Stage1)] IN
         [name |-> e.name, mod |-> e.mod, raised |-> FALSE, unknownmsg |-> FALSE, stage |-> 1,
          field |-> IF e.name \in {"zkinterface", "zkifbellman", "zkifbulletproofs"} THEN LastZk(pre) ELSE e.field,
          groth |-> e.name \in {"libsnark", "libsnarkgg"} /\ GrothOn(pre)]
    ELSE IF env \in Names
    THEN IF Loadable(env)
         THEN [name |-> env, mod |-> Entry(env).mod, raised |-> FALSE, unknownmsg |-> FALSE, stage |-> 2,
               field |-> Entry(env).field, groth |-> env = "libsnarkgg"]
         ELSE [name |-> env, mod |-> "", raised |-> TRUE, unknownmsg |-> FALSE, stage |-> 2, field |-> "", groth |-> FALSE]
    ELSE LET L == {i \in DOMAIN Registry : Loadable(Registry[i].name)} e == Registry[First(L)] IN
         [name |-> e.name, mod |-> e.mod, raised |-> FALSE, unknownmsg |-> env = "bogus", stage |-> 3,
          field |-> e.field, groth |-> e.name = "libsnarkgg"]

\* ---- contract, stated on an outcome record o for the configuration
\* the backend the configuration asks for
Explicit == {i \in PreOK : TRUE}
LastPre == pre[CHOOSE i \in PreOK : \A j \in PreOK : j <= i]

Contract(o) ==
    /\ \* a pre-imported backend is used (with several, one of them; a single one: exactly that one)
       (PreOK # {} => (~o.raised /\ o.name \in {pre[i] : i \in PreOK} /\ (Cardinality(PreOK) = 1 => o.name = LastPre)))
    /\ \* otherwise a known name selects exactly that backend, or fails loudly
       ((PreOK = {} /\ env \in Names) => IF Loadable(env) THEN (~o.raised /\ o.name = env) ELSE o.raised)
    /\ \* an unknown name is reported before falling back; auto-detection = first loadable, only without a known name
       ((PreOK = {} /\ env \notin Names) =>
            /\ ~o.raised /\ o.unknownmsg = (env = "bogus")
            /\ o.name = Registry[First({i \in DOMAIN Registry : Loadable(Registry[i].name)})].name)
    /\ \* the reported name identifies the backend in effect: module and field
       (~o.raised => (o.mod = Entry(o.name).mod /\ o.field = Entry(o.name).field /\ o.groth = (o.name = "libsnarkgg")))

\* known deviation of the mechanism: a pre-imported SPECIFIC module (bellman, bulletproofs, gg) puts its generic
\* base module into sys.modules, which comes first in the registry and gives its name to the selection
SpecificShadowed ==
    \E i \in PreOK : /\ Entry(pre[i]).base # ""
                     /\ Outcome.stage = 1 /\ Outcome.mod = Entry(pre[i]).base

Inv_ContractOnModel == SpecificShadowed \/ Contract(Outcome)

Emit == PrintT(<<"BEH", ToJson([pre |-> pre, env |-> env, loadable |-> loadable, pred |-> Outcome, shadowed |-> SpecificShadowed])>>)
=============================================================================
