------------------------------- MODULE LinAlg -------------------------------
(***************************************************************************)
(* C13: backend linear combinations form a faithful, immutable algebra     *)
(* over a prime field.  A run builds a POOL of objects: two variables, the *)
(* constant one and zero, then sums, differences, negations and scalar     *)
(* multiples of pool members.  Abstractly an object is the polynomial      *)
(* a*v1 + b*v2 + c*one.  Scalars are written s + t*p (p the field prime),  *)
(* so that 0, 1, -1, 2, p-1, p, p+1 are covered and every coefficient      *)
(* stays a small integer: with P = 0 arithmetic is over the integers       *)
(* (models a 254-bit prime, nothing wraps), with P > 0 modulo P.           *)
(***************************************************************************)
EXTENDS Integers, Sequences, TLC, Json

CONSTANTS P, MaxLen

VARIABLES pool, exprs, hist
vars == <<pool, exprs, hist>>

Norm(c) == IF P = 0 THEN c ELSE c % P
Poly(a, b, c) == [a |-> Norm(a), b |-> Norm(b), c |-> Norm(c)]

\* scalars s + t*p
Scalars == {<<0, 0>>, <<1, 0>>, <<-1, 0>>, <<2, 0>>, <<-1, 1>>, <<0, 1>>, <<1, 1>>}
SVal(k) == k[1]        \* value of the scalar in the field

Base == << Poly(1, 0, 0), Poly(0, 1, 0), Poly(0, 0, 1), Poly(0, 0, 0) >>
BaseE == << [op |-> "v1"], [op |-> "v2"], [op |-> "one"], [op |-> "zero"] >>

Init == pool = Base /\ exprs = BaseE /\ hist = <<>>

Put(p, e, h) == pool' = Append(pool, p) /\ exprs' = Append(exprs, e) /\ hist' = Append(hist, h)

AddOp(i, j) == Put(Poly(pool[i].a + pool[j].a, pool[i].b + pool[j].b, pool[i].c + pool[j].c),
                   [op |-> "add", l |-> exprs[i], r |-> exprs[j]], [op |-> "add", i |-> i, j |-> j, s |-> 0, t |-> 0])
SubOp(i, j) == Put(Poly(pool[i].a - pool[j].a, pool[i].b - pool[j].b, pool[i].c - pool[j].c),
                   [op |-> "sub", l |-> exprs[i], r |-> exprs[j]], [op |-> "sub", i |-> i, j |-> j, s |-> 0, t |-> 0])
NegOp(i)    == Put(Poly(-pool[i].a, -pool[i].b, -pool[i].c),
                   [op |-> "neg", l |-> exprs[i]], [op |-> "neg", i |-> i, j |-> 0, s |-> 0, t |-> 0])
ScaleOp(i, k) == Put(Poly(pool[i].a * SVal(k), pool[i].b * SVal(k), pool[i].c * SVal(k)),
                   [op |-> "scale", l |-> exprs[i], k |-> SVal(k)], [op |-> "scale", i |-> i, j |-> 0, s |-> k[1], t |-> k[2]])

Next == /\ Len(hist) < MaxLen
        /\ \/ \E i, j \in DOMAIN pool : AddOp(i, j) \/ SubOp(i, j)
           \/ \E i \in DOMAIN pool : NegOp(i)
           \/ \E i \in DOMAIN pool, k \in Scalars : ScaleOp(i, k)
Spec == Init /\ [][Next]_vars

---------------------------------------------------------------------------
\* Contract.  (1) operands are never altered: the pool only grows.
Immutable == [][\A i \in DOMAIN pool : pool'[i] = pool[i]]_vars

\* (2) homomorphism: evaluating an object on any assignment equals the field expression of its construction
RECURSIVE EvalE(_, _, _)
EvalE(e, x, y) ==
    CASE e.op = "v1" -> x [] e.op = "v2" -> y [] e.op = "one" -> 1 [] e.op = "zero" -> 0
      [] e.op = "add" -> EvalE(e.l, x, y) + EvalE(e.r, x, y)
      [] e.op = "sub" -> EvalE(e.l, x, y) - EvalE(e.r, x, y)
      [] e.op = "neg" -> -EvalE(e.l, x, y)
      [] e.op = "scale" -> e.k * EvalE(e.l, x, y)
EvalP(p, x, y) == p.a * x + p.b * y + p.c

Hom == \A i \in DOMAIN pool : \A x, y \in {0, 1, 3} :
          Norm(EvalP(pool[i], x, y)) = Norm(EvalE(exprs[i], x, y))

\* generator: every history of exactly MaxLen operations
Emit == (Len(hist) = MaxLen) => PrintT(<<"BEH", ToJson(hist)>>)
=============================================================================
