SPECIFICATION Spec
INVARIANT Inv_Sat
CHECK_DEADLOCK FALSE
