SPECIFICATION Spec
CONSTANT P = 67
CONSTANT BL = 2
CONSTANT MaxW = 14
CONSTANT MaxLen = 3
CONSTANT Vals <- ValsQuick
INVARIANT Inv_Sat
INVARIANT Inv_ValLC
INVARIANT Inv_Bool
CHECK_DEADLOCK FALSE
