SPECIFICATION Spec
CONSTANT MaxLen = 7
CONSTANT MaxDepth = 2
INVARIANT Inv_Native
INVARIANT Inv_NoSilentLoss
CHECK_DEADLOCK FALSE
