SPECIFICATION Spec
CONSTANT MaxDepth = 3
CONSTANT RaiseKinds = {0, 1, 2, 3}
CONSTANT MaxLen = 6
INVARIANT TypeOK
INVARIANT NestConj
INVARIANT IgnConj
INVARIANT OneBound
INVARIANT TopLevelClean
PROPERTY RestoreOnEnd
CHECK_DEADLOCK FALSE
