SPECIFICATION Spec
INVARIANT Inv_Enforced
INVARIANT Inv_Complete
CHECK_DEADLOCK FALSE
