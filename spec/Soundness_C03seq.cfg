SPECIFICATION Spec
INVARIANT Inv_Enforced
INVARIANT Inv_Complete
INVARIANT Inv_SameRelSeq
CHECK_DEADLOCK FALSE
