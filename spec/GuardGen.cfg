SPECIFICATION Spec
CONSTANT MaxDepth = 3
CONSTANT RaiseKinds = {0, 1, 2, 3}
CONSTANT MaxLen = 6
INVARIANT EmitHist
CHECK_DEADLOCK FALSE
