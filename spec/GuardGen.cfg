SPECIFICATION Spec
CONSTANT MaxDepth = 3
CONSTANT MaxLen = 6
INVARIANT EmitHist
CHECK_DEADLOCK FALSE
