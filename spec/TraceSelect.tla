----------------------------- MODULE TraceSelect -----------------------------
(***************************************************************************)
(* C19 binding: one fresh interpreter per configuration enumerated from    *)
(* Select.tla; the observed outcome is judged by Select!Contract (for the  *)
(* configuration it was run in) and compared with the mechanism's          *)
(* prediction (drift).                                                     *)
(***************************************************************************)
EXTENDS Select, KnownDeviations

CONSTANT TraceFile
Data   == JsonDeserialize(TraceFile)
Obs    == Data.obs
Active == Data.active

VARIABLE tid
tvars == <<vars, tid>>

TInit == /\ tid \in 1..Len(Obs)
         /\ pre = Obs[tid].pre /\ env = Obs[tid].env /\ loadable = {Obs[tid].loadable[i] : i \in DOMAIN Obs[tid].loadable}
TNext == UNCHANGED tvars
TSpec == TInit /\ [][TNext]_tvars

O == Obs[tid].obs

Inv_Select == Contract(O) \/ KnownSelect(Active, SpecificShadowed, O, Outcome)

\* every selectable backend offers the complete interface the runtime dereferences
Required == {"privval", "pubval", "zero", "one", "fieldinverse", "get_modulus", "add_constraint", "prove"}
Inv_Interface == ~O.raised => Required \subseteq {O.attrs[i] : i \in DOMAIN O.attrs}

\* the module receiving the constraints is the selected one (or the module it re-exports)
Inv_Sink == ~O.raised => (O.sink = O.mod \/ O.sink = Entry(O.name).base)

\* the field the proof artefacts declare (r1cs header prime, zkinterface field_maximum + 1) is the field of the backend in effect
Inv_ArtefactField == (~O.raised /\ O.afield # "") => O.afield = O.field

Inv_Predicted == /\ O.raised = Outcome.raised
                 /\ ~O.raised => (O.name = Outcome.name /\ O.mod = Outcome.mod /\ O.field = Outcome.field
                                   /\ O.unknownmsg = Outcome.unknownmsg /\ O.groth = Outcome.groth)
=============================================================================
