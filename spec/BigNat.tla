------------------------------- MODULE BigNat -------------------------------
(***************************************************************************)
(* Natural numbers beyond TLC's 32-bit integers, as little-endian          *)
(* sequences of base-256 limbs (what the file backends write anyway).      *)
(* Sequences may carry leading-zero limbs (trailing in the sequence).      *)
(* Modular facts are checked by certificate: for x == y (mod p) the        *)
(* harness supplies the quotient k and TLC checks the exact identity       *)
(* x = y + k*p with these operators -- whatever k was supplied, the        *)
(* identity can only hold if the congruence does.                          *)
(***************************************************************************)
EXTENDS Integers, Sequences

LimbBase == 256

IsLimbs(s) == \A i \in DOMAIN s : s[i] \in 0..(LimbBase - 1)

RECURSIVE Strip(_)
Strip(s) == IF s # <<>> /\ s[Len(s)] = 0 THEN Strip(SubSeq(s, 1, Len(s) - 1)) ELSE s

Limb(s, i) == IF i <= Len(s) THEN s[i] ELSE 0
MaxLimbLen(a, b) == IF Len(a) >= Len(b) THEN Len(a) ELSE Len(b)

\* comparison from the most significant limb down: -1, 0, 1
RECURSIVE CmpFrom(_, _, _)
CmpFrom(a, b, i) == IF i = 0 THEN 0
                    ELSE IF Limb(a, i) < Limb(b, i) THEN -1
                    ELSE IF Limb(a, i) > Limb(b, i) THEN 1
                    ELSE CmpFrom(a, b, i - 1)
Cmp(a, b) == CmpFrom(a, b, MaxLimbLen(a, b))
Eq(a, b) == Cmp(a, b) = 0
Lt(a, b) == Cmp(a, b) = -1

RECURSIVE AddFrom(_, _, _, _)
AddFrom(a, b, i, carry) ==
    IF i > MaxLimbLen(a, b)
    THEN (IF carry = 0 THEN <<>> ELSE <<carry>>)
    ELSE LET t == Limb(a, i) + Limb(b, i) + carry IN <<t % LimbBase>> \o AddFrom(a, b, i + 1, t \div LimbBase)
Add(a, b) == AddFrom(a, b, 1, 0)

RECURSIVE MulDigitFrom(_, _, _, _)
MulDigitFrom(a, d, i, carry) ==
    IF i > Len(a)
    THEN (IF carry = 0 THEN <<>> ELSE <<carry % LimbBase>> \o (IF carry \div LimbBase = 0 THEN <<>> ELSE <<carry \div LimbBase>>))
    ELSE LET t == a[i] * d + carry IN <<t % LimbBase>> \o MulDigitFrom(a, d, i + 1, t \div LimbBase)
MulDigit(a, d) == IF d = 0 THEN <<>> ELSE MulDigitFrom(a, d, 1, 0)

RECURSIVE Zeros(_)
Zeros(n) == IF n <= 0 THEN <<>> ELSE <<0>> \o Zeros(n - 1)

\* schoolbook: sum over the limbs of b of (a * b[j]) shifted by j-1 limbs
RECURSIVE MulFrom(_, _, _)
MulFrom(a, b, j) == IF j > Len(b) THEN <<>>
                    ELSE Add(Zeros(j - 1) \o MulDigit(a, b[j]), MulFrom(a, b, j + 1))
Mul(a, b) == MulFrom(a, b, 1)

RECURSIVE FromNat(_)
FromNat(n) == IF n = 0 THEN <<>> ELSE <<n % LimbBase>> \o FromNat(n \div LimbBase)

\* value of a short limb sequence as a TLC integer (only for numbers below 2^31)
RECURSIVE ToNat(_)
ToNat(s) == IF s = <<>> THEN 0 ELSE Head(s) + LimbBase * ToNat(Tail(s))

\* Horner reduction of a limb sequence modulo a small modulus m (m * 256 < 2^31)
ModSmall(s, m) ==
    LET RECURSIVE H(_)
        H(i) == IF i > Len(s) THEN 0 ELSE (s[i] + LimbBase * H(i + 1)) % m
    IN H(1)
=============================================================================
