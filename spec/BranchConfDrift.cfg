SPECIFICATION Spec
INVARIANT Inv_Conf
CHECK_DEADLOCK FALSE
