SPECIFICATION Spec
INVARIANT Inv_Permute
INVARIANT Inv_Sponge
INVARIANT Inv_NoRaise
INVARIANT Inv_SubsetSum
INVARIANT Inv_Count
CHECK_DEADLOCK FALSE
