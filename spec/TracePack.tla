----------------------------- MODULE TracePack -----------------------------
(***************************************************************************)
(* C16: bit decomposition and packing round-trip at the requested width.   *)
(* One behaviour per recorded case; each step is one recorded call judged  *)
(* against Pack.tla.                                                       *)
(***************************************************************************)
EXTENDS Integers, Sequences, TLC, Json, Pack

CONSTANT TraceFile
Data  == JsonDeserialize(TraceFile)
Cases == Data.cases

VARIABLES tid, l
vars == <<tid, l>>

C   == Cases[tid]
Evs == C.events
Init == tid \in 1..Len(Cases) /\ l = 0
Next == l < Len(Evs) /\ l' = l + 1 /\ tid' = tid
Spec == Init /\ [][Next]_vars
E == Evs[l]

\* --- to_bits(n) / from_bits
Inv_ToBits ==
    (l >= 1 /\ E.kind = "to_bits") =>
        /\ (E.out = "ok") <=> Fits(E.v, E.n)                       \* exactly the values 0 <= v < 2^n are accepted, at the REQUESTED width
        /\ E.out = "ok" => (Len(E.res) = E.n /\ E.res = Bits(E.v, E.n) /\ E.kinds = [k \in 1..E.n |-> "bool"])

Inv_FromBits ==
    (l >= 1 /\ E.kind = "from_bits" /\ E.out = "ok") => (Len(E.res) = 1 /\ E.res[1] = FromBits(E.bits) /\ E.res[1] = E.v)

\* --- packers
Inv_BitLen == (l >= 1 /\ E.kind = "bitlen") => (E.out = "ok" /\ E.res = <<BitLen(C.schema)>>)

Inv_Pack ==
    (l >= 1 /\ E.kind = "pack") =>
        IF InRangeAt(C.schema, C.leaves, 1)
        THEN E.out = "ok" /\ E.res = PackRef(C.schema, C.leaves) /\ Len(E.res) = BitLen(C.schema)
        ELSE (C.secret \/ E.out = "raise")       \* out-of-range PLAIN values are rejected

Inv_Unpack ==
    (l >= 1 /\ E.kind = "unpack" /\ InRangeAt(C.schema, C.leaves, 1)) =>
        (E.out = "ok" /\ E.res = UnpackRef(C.schema, PackRef(C.schema, C.leaves)) /\ E.res = [k \in DOMAIN C.leaves |-> C.leaves[k]])

Inv_RefSane == (l = 0 /\ C.family = "pack") => RoundTripRef(C.schema, C.leaves)
=============================================================================
