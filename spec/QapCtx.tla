------------------------------- MODULE QapCtx -------------------------------
(***************************************************************************)
(* Mechanism specification of the call-context bookkeeping of              *)
(* pysnark.qaptools.backend (C12): every function call gets its own        *)
(* context with a wire counter and an I/O counter; a sub-circuit call      *)
(* copies its secret arguments into the callee context and its secret      *)
(* results back into the caller context, then "glues" the two contexts by  *)
(* a pair of blocks named after the contexts' counters.  Equations are     *)
(* buffered; only public values and block declarations flush, and the      *)
(* proving step flushes before it splits the equation file.                *)
(*                                                                         *)
(* A program is a sequence of events: priv, pub, mul (a constraint),       *)
(* call(f, nargs) ... ret(nres).  TLC checks on the model that call ids    *)
(* and block names are unique, that every call is glued by two blocks of   *)
(* equal length listing all arguments and results, and that the split at   *)
(* proving time sees every equation; it prints every closed history for    *)
(* replay, where ids, block names and sizes, and per-context wire counts   *)
(* found in the files are compared with the model's.                       *)
(***************************************************************************)
EXTENDS Integers, Sequences, FiniteSets, TLC, Json

CONSTANTS MaxLen, MaxDepth, Fns

VARIABLES cur, stack, ctr, ioctr, calls, blocks, glues, neq, ondisk, proved, hist
vars == <<cur, stack, ctr, ioctr, calls, blocks, glues, neq, ondisk, proved, hist>>

\* decimal rendering of the small naturals that appear in context names
Dec(n) == CASE n = 0 -> "0" [] n = 1 -> "1" [] n = 2 -> "2" [] n = 3 -> "3" [] n = 4 -> "4" [] n = 5 -> "5" [] n = 6 -> "6"
            [] n = 7 -> "7" [] n = 8 -> "8" [] n = 9 -> "9" [] n = 10 -> "10" [] n = 11 -> "11" [] n = 12 -> "12" [] n = 13 -> "13"
            [] n = 14 -> "14" [] n = 15 -> "15" [] n = 16 -> "16" [] n = 17 -> "17" [] n = 18 -> "18" [] n = 19 -> "19" [] OTHER -> "big"

Init == /\ cur = "main" /\ stack = <<>>
        /\ ctr = [c \in {"main"} |-> 0] /\ ioctr = [c \in {"main"} |-> 0]
        /\ calls = << [fname |-> "main", id |-> "main", caller |-> "", nargs |-> 0, nres |-> 0] >>
        /\ blocks = <<>> /\ glues = <<>>
        /\ neq = 1            \* enterfn("main") writes the one/onex equation
        /\ ondisk = 0 /\ proved = 0 /\ hist = <<>>

Bump(f, c, k) == [f EXCEPT ![c] = @ + k]
Log(a) == hist' = Append(hist, a)
Can == Len(hist) < MaxLen          \* tracing may go on after a proving step (explicit prove(), then more calls, then the one at exit)

\* PrivVal / a multiplication (one wire, one buffered equation)
Priv == /\ Can /\ ctr' = Bump(ctr, cur, 1)
        /\ UNCHANGED <<cur, stack, ioctr, calls, blocks, glues, neq, ondisk, proved>> /\ Log([a |-> "priv", f |-> "", n |-> 0])
Mul ==  /\ Can /\ ctr[cur] >= 1 /\ ctr' = Bump(ctr, cur, 1) /\ neq' = neq + 1
        /\ UNCHANGED <<cur, stack, ioctr, calls, blocks, glues, ondisk, proved>> /\ Log([a |-> "mul", f |-> "", n |-> 0])
\* PubVal: wire, I/O entry, linking equation, FLUSH
Pub ==  /\ Can /\ ctr' = Bump(ctr, cur, 1) /\ ioctr' = Bump(ioctr, cur, 1) /\ neq' = neq + 1 /\ ondisk' = neq + 1
        /\ UNCHANGED <<cur, stack, calls, blocks, glues, proved>> /\ Log([a |-> "pub", f |-> "", n |-> 0])

\* call of sub-circuit f with n secret arguments: enterfn names the call after the caller's counter, the arguments are
\* copied into the new context (n wires there)
Call(f, n) ==
    /\ Can /\ Len(stack) < MaxDepth /\ ctr[cur] >= n /\ n >= 1
    /\ LET id == cur \o "_" \o Dec(ctr[cur]) \o "_" \o f IN
       /\ calls' = Append(calls, [fname |-> f, id |-> id, caller |-> cur, nargs |-> n, nres |-> 0])
       /\ stack' = Append(stack, [caller |-> cur, id |-> id, nargs |-> n])
       /\ cur' = id
       /\ ctr' = [c \in DOMAIN ctr \cup {id} |-> IF c = id THEN n ELSE ctr[c]]
       /\ ioctr' = [c \in DOMAIN ioctr \cup {id} |-> IF c = id THEN 0 ELSE ioctr[c]]
    /\ neq' = neq + 1          \* the callee's one/onex equation
    /\ UNCHANGED <<blocks, glues, ondisk, proved>> /\ Log([a |-> "call", f |-> f, n |-> n])

\* return with m secret results (each a single wire of the callee): continuefn bumps the caller's counter, the results are
\* copied into the caller (m wires), then vc_glue declares one block in each context (named after its counter, which is
\* bumped) listing the n + m argument/result wires; block declarations FLUSH
Ret(m) ==
    /\ Can /\ stack # <<>> /\ ctr[cur] >= 1
    /\ LET fr == stack[Len(stack)]
           c1 == fr.caller c2 == fr.id
           k1 == ctr[c1] + 1 + m          \* caller counter after continuefn and the result copies
           k2 == ctr[c2] IN
       /\ blocks' = blocks \o << [ctx |-> c1, bn |-> Dec(k1), n |-> fr.nargs + m], [ctx |-> c2, bn |-> Dec(k2), n |-> fr.nargs + m] >>
       /\ glues' = Append(glues, [c1 |-> c1, b1 |-> Dec(k1), c2 |-> c2, b2 |-> Dec(k2)])
       /\ ctr' = [ctr EXCEPT ![c1] = k1 + 1, ![c2] = k2 + 1]
       /\ cur' = c1
       /\ stack' = SubSeq(stack, 1, Len(stack) - 1)
       /\ calls' = [i \in DOMAIN calls |-> IF calls[i].id = c2 THEN [calls[i] EXCEPT !.nres = m] ELSE calls[i]]
    /\ ondisk' = neq            \* declaring a block flushes the equation file
    /\ UNCHANGED <<ioctr, neq, proved>> /\ Log([a |-> "ret", f |-> "", n |-> m])

\* prove(): flush, then split what is on disk -- the WHOLE file is read again every time, from empty tables
Prove == /\ Len(hist) < MaxLen + 1 /\ stack = <<>> /\ hist # <<>> /\ hist[Len(hist)].a # "prove" /\ proved < 2
         /\ ondisk' = neq /\ proved' = proved + 1
         /\ UNCHANGED <<cur, stack, ctr, ioctr, calls, blocks, glues, neq>> /\ Log([a |-> "prove", f |-> "", n |-> 0])

Next == Priv \/ Mul \/ Pub \/ (\E f \in Fns, n \in 1..2 : Call(f, n)) \/ (\E m \in 0..1 : Ret(m)) \/ Prove
Spec == Init /\ [][Next]_vars

---------------------------------------------------------------------------
UniqueCalls  == \A i, j \in DOMAIN calls : i # j => calls[i].id # calls[j].id
UniqueBlocks == \A i, j \in DOMAIN blocks : i # j => ~(blocks[i].ctx = blocks[j].ctx /\ blocks[i].bn = blocks[j].bn)
GlueShape    == /\ Len(glues) * 2 = Len(blocks)
                /\ \A g \in DOMAIN glues : blocks[2 * g - 1].n = blocks[2 * g].n
JustProved == hist # <<>> /\ hist[Len(hist)].a = "prove"
SplitSeesAll == JustProved => ondisk = neq

EmitBeh == JustProved => PrintT(<<"BEH", ToJson([hist |-> hist, calls |-> calls, blocks |-> blocks, glues |-> glues, ctr |-> ctr, ioctr |-> ioctr, neq |-> neq])>>)
=============================================================================
