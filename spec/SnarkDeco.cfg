SPECIFICATION Spec
INVARIANT Inv_Pub
INVARIANT Inv_Inner
INVARIANT Inv_Ret
INVARIANT Inv_Kw
CHECK_DEADLOCK FALSE
