------------------------------ MODULE TraceFxp ------------------------------
(***************************************************************************)
(* C14: fixed-point operations equal exact scaled-integer arithmetic.      *)
(* Every recorded call with a fixed-point operand is judged by FxpRef on   *)
(* the logged representations.                                             *)
(***************************************************************************)
EXTENDS Integers, Sequences, TLC, Json, FxpRef, KnownDeviations

CONSTANT TraceFile
Data   == JsonDeserialize(TraceFile)
Traces == Data.traces
Active == Data.active

VARIABLES tid, l
vars == <<tid, l>>

Tr  == Traces[tid]
Evs == Tr.events

Init == tid \in 1..Len(Traces) /\ l = 0
Next == l < Len(Evs) /\ l' = l + 1 /\ tid' = tid
Spec == Init /\ [][Next]_vars

E  == Evs[l]
RES == E.rs                \* the resolution in force when the call was made (a program may change fixedpoint.resolution)
A1 == E.args[1][1]
A2 == E.args[2][1]

Kinds == {"fxp", "int", "bool", "pyint", "pybool", "pyfloat"}
Scalar2 == Len(E.args) = 2 /\ Len(E.args[1]) = 1 /\ Len(E.args[2]) = 1 /\ A1.k \in Kinds /\ A2.k \in Kinds /\ ~A1.w /\ ~A2.w
HasFxp  == A1.k = "fxp" \/ A2.k = "fxp"
Judged  == l >= 1 /\ ~Tr.ign /\ ~E.gfalse /\ E.out = "ok"

RA == Rep(A1.k, A1.v, A1.d, RES)
RB == Rep(A2.k, A2.v, A2.d, RES)

BinOps == {"add", "sub", "mul", "truediv", "floordiv", "mod", "eq", "ne", "lt", "le", "gt", "ge"}

BinOK ==
    /\ FxpDefined(E.name, RB)
    /\ Len(E.res) = 1 /\ ~E.res[1].w
    /\ E.res[1].v = FxpBin(E.name, A1.k, RA, A1.v, A2.k, RB, A2.v, RES)
    /\ E.res[1].k = IF E.name \in {"eq", "ne", "lt", "le", "gt", "ge"} THEN "bool" ELSE "fxp"

DivmodOK ==
    /\ RB # 0 /\ Len(E.res) = 2
    /\ E.res[1].v = FloorDiv(RA, RB) * Scale(RES) /\ E.res[2].v = PyMod(RA, RB)

Inv_Fxp ==
    (Judged /\ E.op = "bin" /\ Scalar2 /\ HasFxp /\ Representable(A1.k, A1.v, A1.d, RES) /\ Representable(A2.k, A2.v, A2.d, RES)) =>
        \/ (E.name \in BinOps /\ BinOK)
        \/ (E.name = "divmod" /\ DivmodOK)
        \/ (E.name = "pow" /\ A1.k = "fxp" /\ A2.k = "pyint" /\ A2.v >= 0 /\ Len(E.res) = 1 /\ E.res[1].v = FxpPow(RA, A2.v, RES))
        \/ (E.name = "lshift" /\ A1.k = "fxp" /\ A2.k = "pyint" /\ A2.v >= 0 /\ Len(E.res) = 1 /\ E.res[1].v = RA * (2 ^ A2.v))
        \/ (E.name = "rshift" /\ A1.k = "fxp" /\ A2.k = "pyint" /\ A2.v >= 0 /\ Len(E.res) = 1 /\ E.res[1].v = RA \div (2 ^ A2.v))
        \/ KnownFxp(Active, E, RES, Tr.P)

\* assertion methods of fixed-point values: accepted exactly when the relation holds on the representations
AssertRel(nm, a, b) == CASE nm = "assert_lt" -> a < b [] nm = "assert_le" -> a <= b [] nm = "assert_gt" -> a > b
                         [] nm = "assert_ge" -> a >= b [] nm = "assert_eq" -> a = b [] nm = "assert_ne" -> a # b
AssertGap(nm, a, b) == CASE nm = "assert_lt" -> b - a - 1 [] nm = "assert_le" -> b - a [] nm = "assert_gt" -> a - b - 1
                          [] nm = "assert_ge" -> a - b [] OTHER -> 0
Inv_FxpAssert ==
    (l >= 1 /\ ~Tr.ign /\ ~E.gfalse /\ E.op = "meth" /\ E.name \in {"assert_lt", "assert_le", "assert_gt", "assert_ge", "assert_eq", "assert_ne"}
        /\ Scalar2 /\ A1.k = "fxp" /\ Representable(A2.k, A2.v, A2.d, RES)) =>
        \* accepted only if the relation holds; and accepted whenever it holds and the gap the gadget decomposes fits the bitlength
        \* (x.assert_ge(y) decomposes x - y at the default width: a wider gap is outside the documented domain and is refused)
        /\ (E.out = "ok" => AssertRel(E.name, RA, RB))
        /\ ((AssertRel(E.name, RA, RB) /\ AssertGap(E.name, RA, RB) < 2 ^ Tr.bitlength) => E.out = "ok")

\* an integer's or boolean's assertion method with a fixed-point operand: whatever the library decides to do with the combination,
\* it never ACCEPTS a statement that is false for the represented numbers (n vs b / 2^r, i.e. n * 2^r vs the representation b)
Inv_IntFxpAssert ==
    (l >= 1 /\ ~Tr.ign /\ ~E.gfalse /\ E.op = "meth" /\ E.out = "ok" /\ Len(E.args) >= 2 /\ Len(E.args[1]) = 1 /\ Len(E.args[2]) = 1
        /\ A1.k \in {"int", "bool"} /\ A2.k = "fxp" /\ ~A1.w /\ ~A2.w) =>
        CASE E.name \in {"assert_lt", "assert_le", "assert_gt", "assert_ge", "assert_eq", "assert_ne"} -> AssertRel(E.name, A1.v * Scale(RES), A2.v)
          [] E.name = "assert_range" -> (Len(E.args) = 3 /\ Len(E.args[3]) = 1 /\ E.args[3][1].k = "fxp")
                                          => (A2.v <= A1.v * Scale(RES) /\ A1.v * Scale(RES) < E.args[3][1].v)
          [] OTHER -> TRUE

\* unary operators and reading a value back
Inv_FxpUn ==
    (Judged /\ Len(E.args) = 1 /\ Len(E.args[1]) = 1 /\ A1.k = "fxp" /\ ~A1.w /\ Len(E.res) = 1) =>
        CASE E.op = "un" /\ E.name = "neg" -> E.res[1].v = -A1.v
          [] E.op = "un" /\ E.name = "pos" -> E.res[1].v = A1.v
          [] E.op = "un" /\ E.name = "abs" -> E.res[1].v = Abs(A1.v)
          \* val() returns representation / 2^r as a float: logged as exact fraction v/d
          [] E.op = "meth" /\ E.name = "val" -> E.res[1].k = "pyfloat" /\ E.res[1].v * Scale(RES) = A1.v * E.res[1].d
          [] OTHER -> TRUE

\* constructing a fixed-point value from a plain or secret number scales it by 2^r
Inv_FxpNew ==
    (Judged /\ E.op = "call" /\ E.name \in {"LinCombFxp", "ensurefxp", "PrivValFxp", "PubValFxp"}
        /\ Len(E.args) = 1 /\ Len(E.args[1]) = 1 /\ A1.k \in Kinds /\ ~A1.w /\ Len(E.res) = 1) =>
        (Representable(A1.k, A1.v, A1.d, RES) => E.res[1].v = Rep(A1.k, A1.v, A1.d, RES))
=============================================================================
