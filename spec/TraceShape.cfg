SPECIFICATION Spec
INVARIANT Inv_Shape
INVARIANT Inv_SameLength
CHECK_DEADLOCK FALSE
