SPECIFICATION TSpec
CONSTANT MaxLen = 100
INVARIANT Inv_Total
INVARIANT Inv_Bounds
INVARIANT Inv_Read
INVARIANT Inv_Cells
CHECK_DEADLOCK FALSE
