SPECIFICATION Spec
INVARIANT Inv_WellFormed
INVARIANT Inv_Canonical
INVARIANT Inv_FaithfulCircuit
INVARIANT Inv_FaithfulWitness
INVARIANT Inv_FileSat
CHECK_DEADLOCK FALSE
