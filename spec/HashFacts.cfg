SPECIFICATION Spec
INVARIANT Inv_Vector
INVARIANT Inv_Params
INVARIANT Inv_GGH
CHECK_DEADLOCK FALSE
