SPECIFICATION Spec
INVARIANT Inv_Vector
INVARIANT Inv_Params
CHECK_DEADLOCK FALSE
