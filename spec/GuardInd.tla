------------------------------ MODULE GuardInd ------------------------------
(***************************************************************************)
(* Inductive-invariant check for Guard.tla with TLC (C08): the bounded     *)
(* model checking of Guard.cfg explores histories of at most MaxLen        *)
(* events.  Here the bound on the LENGTH of histories is removed: IndInv   *)
(* is shown to be inductive for the unbounded next-state relation Step     *)
(* (at nesting depth <= MaxDepth) by taking "every state that satisfies    *)
(* IndInv" as the set of initial states and checking IndInv in all their   *)
(* successors.  Since Init => IndInv, IndInv -- and with it NestConj,      *)
(* OneBound and the clean-at-top-level property -- holds after histories   *)
(* of ANY length.                                                          *)
(*                                                                         *)
(* hist is a pure log (no action reads it except the history-dependent     *)
(* IgnConj, which is not part of IndInv); a VIEW hides it, so the state    *)
(* space is finite.                                                        *)
(***************************************************************************)
EXTENDS Guard

Triples == [g : {None, 0, 1}, i : BOOLEAN, o : {"const", "guard"}]
GuardRec == [type : {"guard"}, cond : {0, 1}, saved : Triples]
ConstRec == [type : {"guard"}, cond : {1}, saved : Triples, const : {TRUE}]
TryRec   == [type : {"try"}, cond : {1}, saved : Triples]
FrameRec == GuardRec \cup ConstRec \cup TryRec
Stacks == UNION {[1..n -> FrameRec] : n \in 0..MaxDepth}

IsCond(f) == f.type = "guard" /\ "const" \notin DOMAIN f          \* contributes a secret condition
IsRegion(f) == f.type = "guard"                                    \* any guarded region, constant-true ones included

\* the guard value that was current when frame k was entered: the conjunction of the conditions below it
RECURSIVE ProdBelow(_, _)
ProdBelow(fr, k) == IF k = 0 THEN 1 ELSE (IF IsCond(fr[k]) THEN fr[k].cond ELSE 1) * ProdBelow(fr, k - 1)
CondsBelow(fr, k) == {i \in 1..(k - 1) : IsCond(fr[i])}
RegionsBelow(fr, k) == {i \in 1..(k - 1) : IsRegion(fr[i])}

\* every open region saved exactly the triple that was current at its entry (as far as the contract speaks about it)
FrameInv ==
    \A k \in DOMAIN frames : IsRegion(frames[k]) =>
        /\ frames[k].saved.g = (IF CondsBelow(frames, k) = {} THEN None ELSE ProdBelow(frames, k - 1))
        /\ frames[k].saved.o = (IF CondsBelow(frames, k) = {} THEN "const" ELSE "guard")
        /\ (RegionsBelow(frames, k) = {} => frames[k].saved.i = userIgn)

\* with no region open -- also while an exception is still travelling through try blocks -- the triple is the initial one
Clean == (\A k \in DOMAIN frames : ~IsRegion(frames[k])) => (gval = None /\ one = "const" /\ ign = userIgn)

IndInv == TypeOK /\ NestConj /\ OneBound /\ FrameInv /\ Clean

IndInit == /\ frames \in Stacks
           /\ gval \in {None, 0, 1} /\ ign \in BOOLEAN /\ one \in {"const", "guard"}
           /\ unwinding \in BOOLEAN /\ userIgn \in BOOLEAN /\ hist = <<>>
           /\ IndInv

IndNext == Step                       \* no bound on the length of the history
IndSpec == IndInit /\ [][IndNext]_vars

NoHist == <<gval, ign, one, frames, unwinding, userIgn>>

\* base case (checked with the ordinary initial state): Init => IndInv
BaseSpec == Init /\ [][FALSE]_vars
=============================================================================
