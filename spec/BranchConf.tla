----------------------------- MODULE BranchConf -----------------------------
(***************************************************************************)
(* C09 binding for Branching.tla: every closed event sequence TLC generated *)
(* from the mechanism spec is replayed through the real block API; the      *)
(* variables the code ends with are compared with the NATIVE result of the  *)
(* same sequence (contract) and with the mechanism's prediction (drift).    *)
(***************************************************************************)
EXTENDS Integers, Sequences, TLC, Json

CONSTANT TraceFile
Data  == JsonDeserialize(TraceFile)
Pairs == Data.pairs

VARIABLE tid
Init == tid \in 1..Len(Pairs)
Next == UNCHANGED tid
Spec == Init /\ [][Next]_tid

M == Pairs[tid].model
I == Pairs[tid].impl
Undef == -99
Vars == {"x", "y", "z"}

\* a structurally valid program (the mechanism raises no structural error) runs to its end ...
Inv_Runs == ~M.err => ~I.raised
\* ... and ends with the native value of every variable the native program defines
Inv_Native == (~M.err /\ ~I.raised) => \A v \in Vars : (M.nat[v] # Undef => I.final[v] = M.nat[v])
\* a program the code accepts although the mechanism spec refuses it must still be right
Inv_NativeAnyway == (M.err /\ ~I.raised) => \A v \in Vars : (M.nat[v] # Undef /\ I.final[v] # Undef => I.final[v] = M.nat[v])

\* C08 on the block API: while the condition of an _elif is evaluated the previous arm's region has ended -- the active guard is
\* the conjunction of the ENCLOSING conditions only (I.probes: the guard value the code reported at each of these moments)
ElifIdx == {k \in DOMAIN M.hist : M.hist[k].a = "elif"}
RECURSIVE ElifGuards(_)
ElifGuards(k) == IF k > Len(M.hist) THEN <<>> ELSE (IF M.hist[k].a = "elif" THEN <<M.hist[k].g>> ELSE <<>>) \o ElifGuards(k + 1)
Inv_ElifGuard == (~M.err /\ ~I.raised) => I.probes = ElifGuards(1)

\* conformance with the mechanism (drift)
Inv_Conf == (I.raised = M.err) /\ (~M.err => \A v \in Vars : I.final[v] = M.vals[v])
=============================================================================
