---------------------------- MODULE TraceLinAlg ----------------------------
(***************************************************************************)
(* Binds LinAlg.tla to the linear-combination classes of the backends:     *)
(* each recorded operation is consumed by the LinAlg action with the       *)
(* logged arguments, and the canonical term maps of ALL pool objects, read *)
(* from the implementation after the operation, must equal the pool of the *)
(* specification (result correct, no operand altered, no stray terms).     *)
(* Also: reported modulus = curve order, inverses by certificate.          *)
(***************************************************************************)
EXTENDS LinAlg

CONSTANT TraceFile
Data   == JsonDeserialize(TraceFile)
Traces == Data.traces

VARIABLES tid, l
tvars == <<vars, tid, l>>

Tr  == Traces[tid]
Evs == Tr.events
E   == Evs[l + 1]
Last == Evs[l]

TInit == Init /\ tid \in 1..Len(Traces) /\ l = 0

Consume == l < Len(Evs) /\ l' = l + 1 /\ tid' = tid

TNext == Consume /\
    \/ (E.op = "add" /\ AddOp(E.i, E.j))
    \/ (E.op = "sub" /\ SubOp(E.i, E.j))
    \/ (E.op = "neg" /\ NegOp(E.i))
    \/ (E.op = "scale" /\ ScaleOp(E.i, <<E.s, E.t>>))
TSpec == TInit /\ [][TNext]_tvars

\* what the implementation reports for object k after the operation
Same(obs, p) == obs.a = p.a /\ obs.b = p.b /\ obs.c = p.c /\ obs.other = 0

\* adding, subtracting, negating and scaling are total: they never raise
Inv_Total == l >= 1 => Last.raised = ""
Inv_Base  == l = 0 => (Len(Tr.base) = 4 /\ \A k \in 1..4 : Same(Tr.base[k], pool[k]))
Inv_Pool  == l >= 1 => (Len(Last.pool) = Len(pool) /\ \A k \in DOMAIN pool : Same(Last.pool[k], pool[k]))
=============================================================================
