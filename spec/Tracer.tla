------------------------------- MODULE Tracer -------------------------------
(***************************************************************************)
(* Mechanism specification of the core of pysnark.runtime / boolean: the   *)
(* tracer state and the constraint gadgets, transcribed from the code and  *)
(* structured like it (one action per public call; compound gadgets thread *)
(* a builder state through LET).                                           *)
(*                                                                         *)
(* State:  wit    private witness values (residues mod P), wire w = wit[w] *)
(*                (wire 0 is the constant one)                             *)
(*         cons   emitted constraints <<A, B, C>>, an LC being a function  *)
(*                0..MaxW -> 0..P-1 (coefficient per wire)                 *)
(*         objs   the secret-typed objects returned so far: [v, lc, k]     *)
(*                v = Python-level integer value, k in {"int","bool"}      *)
(*         gstack the open guarded regions (object index of the condition, *)
(*                wire expression and value of the effective guard)        *)
(*         uign   user's ignore_errors flag;  raised: some call raised     *)
(*                                                                         *)
(* TLC checks on this model, exhaustively within the constants: the        *)
(* recorded witness satisfies every constraint (C01), every object's value *)
(* equals its wire expression (C04), boolean objects are 0/1, results      *)
(* agree with Python semantics when no raise occurred outside a false      *)
(* guard (C05); and prints every behaviour for replay into the real code,  *)
(* where the recorded witness, constraints and results are compared with   *)
(* the model's (conformance).                                              *)
(***************************************************************************)
EXTENDS Integers, Sequences, TLC, Json

CONSTANTS P,        \* field prime (small)
          BL,       \* runtime.bitlength
          MaxW,     \* bound on the number of private wires
          MaxLen,   \* bound on the number of public calls
          Vals,     \* input values for PrivVal
          Wide,     \* TRUE: the full operator set; FALSE: the core gadgets only (smaller state graph)
          RES       \* fixedpoint.resolution (objects of kind "fxp" carry the scaled integer x * 2^RES)

VARIABLES wit, cons, objs, gstack, uign, raised, hist
vars == <<wit, cons, objs, gstack, uign, raised, hist>>

\* value sets for the cfg files (the cfg grammar has no negative literals): CONSTANT Vals <- ValsThorough
ValsQuick == {0, 1, 3}
ValsThorough == {-1, 0, 1, 3}

Wires == 0..MaxW
Zero  == [w \in Wires |-> 0]
One   == [Zero EXCEPT ![0] = 1]
Var(i) == [Zero EXCEPT ![i] = 1]
LAdd(a, b)   == [w \in Wires |-> (a[w] + b[w]) % P]
LScale(a, k) == [w \in Wires |-> (a[w] * (k % P)) % P]
LNeg(a)      == LScale(a, -1)
LSub(a, b)   == LAdd(a, LNeg(b))

WVal(w, ws) == IF w = 0 THEN 1 ELSE IF w <= Len(ws) THEN ws[w] ELSE 0
RECURSIVE EvalFrom(_, _, _)
EvalFrom(lc, w, ws) == IF w > MaxW THEN 0 ELSE (lc[w] * WVal(w, ws) + EvalFrom(lc, w + 1, ws)) % P
Eval(lc, ws) == EvalFrom(lc, 0, ws)
Scoped(lc, ws) == \A w \in Wires : lc[w] # 0 => w <= Len(ws)

\* field inverse by search (P is small)
Inv(x) == IF x % P = 0 THEN 0 ELSE CHOOSE y \in 1..(P - 1) : (x * y) % P = 1

\* ---- builder state threaded through the gadgets
\* st = [wit, cons, raised];  guard context g = [on, lc, v] (effective guard), ign = effective ignore flag
Guard == IF gstack = <<>> THEN [on |-> FALSE, lc |-> One, v |-> 1] ELSE [on |-> TRUE, lc |-> gstack[Len(gstack)].lc, v |-> gstack[Len(gstack)].v]
Ign   == uign \/ \E i \in DOMAIN gstack : gstack[i].v = 0
IsGuard == ~Guard.on \/ Guard.v = 1        \* runtime.is_guard()
OneObj == [v |-> Guard.v, lc |-> Guard.lc]  \* LinComb.ONE is rebound to the guard inside regions

St0 == [wit |-> wit, cons |-> cons, raised |-> FALSE]
New(st, v) == [st |-> [st EXCEPT !.wit = Append(@, v % P)], w |-> Len(st.wit) + 1]      \* backend.privval
Emit(st, a, b, c) == [st EXCEPT !.cons = Append(@, <<a, b, c>>)]                       \* add_constraint_unsafe
Fail(st) == [st EXCEPT !.raised = TRUE]

\* runtime.add_constraint(v, w, y, check): guarded form adds a dummy, unguarded form checks over the integers
AddCon(st, av, a, bv, b, cv, c, check) ==
    IF Guard.on
    THEN LET d == New(st, av * bv - cv) IN
         Emit(Emit(d.st, a, b, LAdd(c, Var(d.w))), Guard.lc, Var(d.w), Zero)
    ELSE IF av * bv # cv /\ check /\ ~Ign THEN Fail(st) ELSE Emit(st, a, b, c)

\* LinComb.assert_zero
AssertZero(st, xv, x) == IF ~Ign /\ xv # 0 THEN Fail(st) ELSE AddCon(st, 0, Zero, 0, Zero, xv, x, TRUE)

\* PrivValBool(b): PrivVal + LinCombBool(lc): lc * (1 - lc) = 0
NewBool(st, b) == LET n == New(st, b) IN [st |-> AddCon(n.st, b, Var(n.w), 1 - b, LSub(One, Var(n.w)), 0, Zero, TRUE), w |-> n.w]

RECURSIVE NewBits(_, _, _)          \* allocate bits b[i..] of value-list bs; returns [st, ws (wires), sum (sum of 2^i bit_i as LC), sv (its value)]
NewBits(st, bs, i) ==
    IF i > Len(bs) THEN [st |-> st, sum |-> Zero, sv |-> 0, ws |-> <<>>]
    ELSE LET nb == NewBool(st, bs[i]) rest == NewBits(nb.st, bs, i + 1) IN
         [st |-> rest.st, sum |-> LAdd(LScale(Var(nb.w), 2 ^ (i - 1)), rest.sum), sv |-> bs[i] * (2 ^ (i - 1)) + rest.sv, ws |-> <<nb.w>> \o rest.ws]

Bit(v, i) == (v \div (2 ^ i)) % 2            \* (v & (1 << i)) >> i for any integer v (floor semantics = two's complement)
BitsOf(v, n) == [i \in 1..n |-> Bit(v, i - 1)]
BitLength(v) == LET a == IF v < 0 THEN -v ELSE v IN
                IF a = 0 THEN 0 ELSE CHOOSE n \in 1..31 : 2 ^ (n - 1) <= a /\ a < 2 ^ n

\* LinComb.to_bits(): raises unless 0 <= v < 2^BL (or errors ignored); bits then (x - sum).assert_zero()
ToBits(st, xv, x) ==
    IF ~Ign /\ (xv < 0 \/ BitLength(xv) > BL) THEN Fail(st)
    ELSE LET nb == NewBits(st, BitsOf(xv, BL), 1) IN AssertZero(nb.st, xv - nb.sv, LSub(x, nb.sum))

\* the same, also handing back the bit wires and bit values (for >>, ~, &, |, ^)
ToBitsW(st, xv, x) ==
    IF ~Ign /\ (xv < 0 \/ BitLength(xv) > BL) THEN [st |-> Fail(st), ws |-> <<>>, bs |-> <<>>]
    ELSE LET bs == BitsOf(xv, BL) nb == NewBits(st, bs, 1) IN [st |-> AssertZero(nb.st, xv - nb.sv, LSub(x, nb.sum)), ws |-> nb.ws, bs |-> bs]

\* LinComb.check_positive(): result bit + decomposition of v (or -v-1); one product constraint
CheckPos(st, xv, x) ==
    LET mag == IF xv >= 0 THEN xv ELSE -xv - 1
        okk == IsGuard /\ BitLength(mag) <= BL IN
    IF ~okk /\ ~Ign THEN [st |-> Fail(st), w |-> 0, v |-> 0]
    ELSE LET rv == IF okk THEN (IF xv >= 0 THEN 1 ELSE 0) ELSE 0
             r  == NewBool(st, rv)
             nb == NewBits(r.st, IF okk THEN BitsOf(mag, BL) ELSE [i \in 1..BL |-> 0], 1)
             \* add_constraint(2*ret, self, self + from_bits(bits) + (1 - ret))
             s2 == AddCon(nb.st, 2 * rv, LScale(Var(r.w), 2), xv, x, xv + nb.sv + (1 - rv), LAdd(LAdd(x, nb.sum), LSub(One, Var(r.w))), TRUE)
         IN [st |-> s2, w |-> r.w, v |-> rv]

\* LinComb.check_zero(): Pinocchio trick, both constraints unguarded (ONE_SAFE is the true constant one)
CheckZero(st, xv, x) ==
    LET rv == IF xv = 0 THEN 1 ELSE 0
        r  == New(st, rv)
        wv == Inv(xv + rv)
        wt == New(r.st, wv)
    IN [st |-> Emit(Emit(wt.st, x, Var(wt.w), LSub(One, Var(r.w))), x, Var(r.w), Zero), w |-> r.w, v |-> rv]

\* LinComb.assert_positive() = to_bits() at the default width;  assert_lt(other): Python-level check, then
\* (other - self - 1).assert_positive()
AssertLt(st, av, a, bv, b) ==
    IF ~Ign /\ av >= bv THEN Fail(st) ELSE ToBits(st, bv - av - 1, LAdd(LSub(b, a), LScale(One, -1)))

\* LinComb.__divmod__(divisor) with a secret divisor: quotient and remainder hints, quo * d = self - rem,
\* rem < d, rem >= 0.  (The quotient itself is not range-checked: known finding C02-divmod-quotient-free.)
DivMod(st, av, a, dv, d) ==
    IF dv = 0 THEN [st |-> Fail(st), q |-> 0, qv |-> 0, r |-> 0, rv |-> 0]
    ELSE LET qv == IF dv > 0 THEN av \div dv ELSE (-av) \div (-dv)
             q  == New(st, qv)
             pr == New(q.st, qv * dv)                               \* res = quo * divisor (1 constraint, unguarded)
             s1 == Emit(pr.st, Var(q.w), d, Var(pr.w))
             rv == av - qv * dv
             r  == New(s1, rv)
             s2 == AddCon(r.st, qv, Var(q.w), dv, d, av - rv, LSub(a, Var(r.w)), TRUE)
             s3 == IF s2.raised THEN s2 ELSE AssertLt(s2, rv, Var(r.w), dv, d)
             s4 == IF s3.raised THEN s3 ELSE ToBits(s3, rv, Var(r.w))
         IN [st |-> s4, q |-> q.w, qv |-> qv, r |-> r.w, rv |-> rv]

---------------------------------------------------------------------------
Init == /\ wit = <<>> /\ cons = <<>> /\ objs = <<>> /\ gstack = <<>> /\ uign = FALSE /\ raised = FALSE /\ hist = <<>>

Room(k) == Len(wit) + k <= MaxW
Commit(st, newobjs, h) ==
    /\ wit' = st.wit /\ cons' = st.cons
    /\ raised' = (raised \/ st.raised)
    /\ objs' = IF st.raised THEN objs ELSE objs \o newobjs
    /\ hist' = Append(hist, h)
    /\ UNCHANGED <<gstack, uign>>
Obj(v, lc, k) == [v |-> v, lc |-> lc, k |-> k]

APriv(v) == Room(1) /\ LET n == New(St0, v) IN Commit(n.st, <<Obj(v, Var(n.w), "int")>>, [a |-> "priv", i |-> 0, j |-> 0, v |-> v])
ABool(b) == Room(2) /\ LET n == NewBool(St0, b) IN Commit(n.st, <<Obj(b, Var(n.w), "bool")>>, [a |-> "privbool", i |-> 0, j |-> 0, v |-> b])
AAdd(i, j) == Commit(St0, <<Obj(objs[i].v + objs[j].v, LAdd(objs[i].lc, objs[j].lc), "int")>>, [a |-> "add", i |-> i, j |-> j, v |-> 0])
ASub(i, j) == Commit(St0, <<Obj(objs[i].v - objs[j].v, LSub(objs[i].lc, objs[j].lc), "int")>>, [a |-> "sub", i |-> i, j |-> j, v |-> 0])
AAddC(i, c) == Commit(St0, <<Obj(objs[i].v + c, LAdd(objs[i].lc, LScale(One, c)), "int")>>, [a |-> "addc", i |-> i, j |-> 0, v |-> c])
AMulC(i, c) == Commit(St0, <<Obj(objs[i].v * c, LScale(objs[i].lc, c), "int")>>, [a |-> "mulc", i |-> i, j |-> 0, v |-> c])
\* x * y: LinComb.__mul__ emits (x, y, ret); when y is boolean-typed Python falls back to y.__rmul__(x), i.e. (y, x, ret)
AMul(i, j) == Room(1) /\ LET n == New(St0, objs[i].v * objs[j].v)
                             a == IF objs[j].k = "bool" THEN objs[j].lc ELSE objs[i].lc
                             b == IF objs[j].k = "bool" THEN objs[i].lc ELSE objs[j].lc IN
              Commit(Emit(n.st, a, b, Var(n.w)), <<Obj(objs[i].v * objs[j].v, Var(n.w), "int")>>, [a |-> "mul", i |-> i, j |-> j, v |-> 0])
AAssertZero(i) == Room(1) /\ Commit(AssertZero(St0, objs[i].v, objs[i].lc), <<>>, [a |-> "assert_zero", i |-> i, j |-> 0, v |-> 0])
ACheckZero(i) == Room(2) /\ LET r == CheckZero(St0, objs[i].v, objs[i].lc) IN
                 Commit(r.st, <<Obj(r.v, Var(r.w), "bool")>>, [a |-> "check_zero", i |-> i, j |-> 0, v |-> 0])
AToBits(i) == Room(2 * BL + 1) /\ Commit(ToBits(St0, objs[i].v, objs[i].lc), <<>>, [a |-> "to_bits", i |-> i, j |-> 0, v |-> 0])
\* x >= 0  is  x.check_positive();  x < y  is  (y - x - 1).check_positive()
ACheckPos(i) == Room(2 * BL + 4) /\ LET r == CheckPos(St0, objs[i].v, objs[i].lc) IN
                Commit(r.st, <<Obj(r.v, Var(r.w), "bool")>>, [a |-> "check_positive", i |-> i, j |-> 0, v |-> 0])
ALt(i, j) == Room(2 * BL + 4) /\ LET xv == objs[j].v - objs[i].v - 1 x == LAdd(LSub(objs[j].lc, objs[i].lc), LScale(One, -1)) r == CheckPos(St0, xv, x) IN
             Commit(r.st, <<Obj(r.v, Var(r.w), "bool")>>, [a |-> "lt", i |-> i, j |-> j, v |-> 0])

\* x / c with a plain integer c # 0: exact quotient, or (checks off) the field quotient; no constraint
ATrueDivC(i, c) ==
    LET v == objs[i].v IN
    IF IsGuard /\ v % c = 0
    THEN Commit(St0, <<Obj(v \div c, LScale(objs[i].lc, Inv(c)), "int")>>, [a |-> "truedivc", i |-> i, j |-> 0, v |-> c])
    ELSE IF Ign THEN Commit(St0, <<Obj((v * Inv(c)) % P, LScale(objs[i].lc, Inv(c)), "int")>>, [a |-> "truedivc", i |-> i, j |-> 0, v |-> c])
    ELSE Commit(Fail(St0), <<>>, [a |-> "truedivc", i |-> i, j |-> 0, v |-> c])

\* x / y with a secret y: hint + one (guard-aware) constraint y * res = x
ATrueDiv(i, j) ==
    Room(2) /\
    LET xv == objs[i].v yv == objs[j].v IN
    IF yv = 0 THEN Commit(Fail(St0), <<>>, [a |-> "truediv", i |-> i, j |-> j, v |-> 0])
    ELSE IF (IsGuard /\ xv % (IF yv < 0 THEN -yv ELSE yv) = 0) \/ Ign
    THEN LET qv == IF IsGuard /\ xv % (IF yv < 0 THEN -yv ELSE yv) = 0 THEN (IF yv > 0 THEN xv \div yv ELSE (-xv) \div (-yv)) ELSE 0
             n == New(St0, qv) IN
         Commit(AddCon(n.st, yv, objs[j].lc, qv, Var(n.w), xv, objs[i].lc, TRUE), <<Obj(qv, Var(n.w), "int")>>, [a |-> "truediv", i |-> i, j |-> j, v |-> 0])
    ELSE Commit(Fail(St0), <<>>, [a |-> "truediv", i |-> i, j |-> j, v |-> 0])

\* divmod(x, y) with a secret y
ADivMod(i, j) ==
    Room(4 * BL + 10) /\
    LET r == DivMod(St0, objs[i].v, objs[i].lc, objs[j].v, objs[j].lc) IN
    Commit(r.st, <<Obj(r.qv, Var(r.q), "int"), Obj(r.rv, Var(r.r), "int")>>, [a |-> "divmod", i |-> i, j |-> j, v |-> 0])

\* if_then_else(cond, t, f) on computed values: f + cond * (t - f), one multiplication (cond.lc first)
AIte(c, i, j) ==
    objs[c].k = "bool" /\
    IF i = j       \* `if truev is falsev: return truev` -- the very same object comes back, nothing new exists
    THEN Commit(St0, <<>>, [a |-> "ite", i |-> i, j |-> j, v |-> c])
    ELSE Room(1) /\
         LET dv == objs[i].v - objs[j].v
             n == New(St0, objs[c].v * dv)
             st == Emit(n.st, objs[c].lc, LSub(objs[i].lc, objs[j].lc), Var(n.w)) IN
         Commit(st, <<Obj(objs[j].v + objs[c].v * dv, LAdd(objs[j].lc, Var(n.w)), "int")>>, [a |-> "ite", i |-> i, j |-> j, v |-> c])

\* assert_nonzero: inverse hint (or 0 with checks off), constraint x * wit = ONE without the integer check
AAssertNonzero(i) ==
    Room(2) /\
    LET v == objs[i].v IN
    IF IsGuard /\ v # 0
    THEN LET n == New(St0, Inv(v)) IN Commit(AddCon(n.st, v, objs[i].lc, Inv(v), Var(n.w), OneObj.v, OneObj.lc, FALSE), <<>>, [a |-> "assert_nonzero", i |-> i, j |-> 0, v |-> 0])
    ELSE IF Ign THEN LET n == New(St0, 0) IN Commit(AddCon(n.st, v, objs[i].lc, 0, Var(n.w), OneObj.v, OneObj.lc, FALSE), <<>>, [a |-> "assert_nonzero", i |-> i, j |-> 0, v |-> 0])
    ELSE Commit(Fail(St0), <<>>, [a |-> "assert_nonzero", i |-> i, j |-> 0, v |-> 0])

\* ---- comparisons other than <, equality tests, negation, absolute value
\* x <= y is (y - x).check_positive(); x > y is (x - y - 1).check_positive(); x >= y is (x - y).check_positive()
ACmp(op, i, j) ==
    Room(2 * BL + 4) /\
    LET a == objs[i] b == objs[j]
        xv == CASE op = "le" -> b.v - a.v [] op = "gt" -> a.v - b.v - 1 [] op = "ge" -> a.v - b.v
        x  == CASE op = "le" -> LSub(b.lc, a.lc) [] op = "gt" -> LAdd(LSub(a.lc, b.lc), LScale(One, -1)) [] op = "ge" -> LSub(a.lc, b.lc)
        r  == CheckPos(St0, xv, x) IN
    Commit(r.st, <<Obj(r.v, Var(r.w), "bool")>>, [a |-> op, i |-> i, j |-> j, v |-> 0])
\* x == y is (x - y).check_zero();  x != y is ~ of it: the boolean 1 - ret (no new wire, the constant one)
AEq(i, j) == Room(2) /\ LET r == CheckZero(St0, objs[i].v - objs[j].v, LSub(objs[i].lc, objs[j].lc)) IN
             Commit(r.st, <<Obj(r.v, Var(r.w), "bool")>>, [a |-> "eq", i |-> i, j |-> j, v |-> 0])
ANe(i, j) == Room(2) /\ LET r == CheckZero(St0, objs[i].v - objs[j].v, LSub(objs[i].lc, objs[j].lc)) IN
             Commit(r.st, <<Obj(1 - r.v, LSub(One, Var(r.w)), "bool")>>, [a |-> "ne", i |-> i, j |-> j, v |-> 0])
ANeg(i) == Commit(St0, <<Obj(-objs[i].v, LNeg(objs[i].lc), "int")>>, [a |-> "neg", i |-> i, j |-> 0, v |-> 0])
\* abs(x) = if_then_else(x >= 0, x, -x): sign test, then -x + cond * (x - (-x))
AAbs(i) ==
    Room(2 * BL + 5) /\
    LET x == objs[i] c == CheckPos(St0, x.v, x.lc) IN
    IF c.st.raised THEN Commit(c.st, <<>>, [a |-> "abs", i |-> i, j |-> 0, v |-> 0])
    ELSE LET n == New(c.st, c.v * 2 * x.v)
             st == Emit(n.st, Var(c.w), LScale(x.lc, 2), Var(n.w)) IN
         Commit(st, <<Obj(-x.v + c.v * 2 * x.v, LAdd(LNeg(x.lc), Var(n.w)), "int")>>, [a |-> "abs", i |-> i, j |-> 0, v |-> 0])

\* ---- shifts by a constant, powers with a constant exponent
ALShiftC(i, c) == Commit(St0, <<Obj(objs[i].v * 2 ^ c, LScale(objs[i].lc, 2 ^ c), "int")>>, [a |-> "lshiftc", i |-> i, j |-> 0, v |-> c])
\* x >> c: to_bits(), then from_bits(bits[c:])
RECURSIVE BitSum(_, _, _, _)       \* sum over k >= from of f(k) * 2^(k - from), f given as a sequence of [v, lc]
BitSum(terms, from, k, acc) ==
    IF k > Len(terms) THEN acc
    ELSE BitSum(terms, from, k + 1, IF k < from THEN acc ELSE [v |-> acc.v + terms[k].v * 2 ^ (k - from), lc |-> LAdd(acc.lc, LScale(terms[k].lc, 2 ^ (k - from)))])
BitTerms(ws, bs) == [k \in DOMAIN ws |-> [v |-> bs[k], lc |-> Var(ws[k])]]
ARShiftC(i, c) ==
    Room(2 * BL + 1) /\
    LET t == ToBitsW(St0, objs[i].v, objs[i].lc) IN
    IF t.st.raised THEN Commit(t.st, <<>>, [a |-> "rshiftc", i |-> i, j |-> 0, v |-> c])
    ELSE IF c >= BL THEN Commit(t.st, <<>>, [a |-> "rshiftc", i |-> i, j |-> 0, v |-> c])   \* from_bits([]) is the plain integer 0: no object
    ELSE LET r == BitSum(BitTerms(t.ws, t.bs), c + 1, 1, [v |-> 0, lc |-> Zero]) IN
         Commit(t.st, <<Obj(r.v, r.lc, "int")>>, [a |-> "rshiftc", i |-> i, j |-> 0, v |-> c])
\* ~x: to_bits(), every bit b replaced by the boolean 1 - b, from_bits
AInvert(i) ==
    Room(2 * BL + 1) /\
    LET t == ToBitsW(St0, objs[i].v, objs[i].lc) IN
    IF t.st.raised THEN Commit(t.st, <<>>, [a |-> "invert", i |-> i, j |-> 0, v |-> 0])
    ELSE LET terms == [k \in DOMAIN t.ws |-> [v |-> 1 - t.bs[k], lc |-> LSub(One, Var(t.ws[k]))]]
             r == BitSum(terms, 1, 1, [v |-> 0, lc |-> Zero]) IN
         Commit(t.st, <<Obj(r.v, r.lc, "int")>>, [a |-> "invert", i |-> i, j |-> 0, v |-> 0])
\* x ** 2 = x * x;  x ** 3 = x * (x * x): plain multiplications
APowC(i, c) ==
    Room(c - 1) /\
    LET x == objs[i]
        n1 == New(St0, x.v * x.v)
        s1 == Emit(n1.st, x.lc, x.lc, Var(n1.w)) IN
    IF c = 2 THEN Commit(s1, <<Obj(x.v * x.v, Var(n1.w), "int")>>, [a |-> "powc", i |-> i, j |-> 0, v |-> c])
    ELSE LET n2 == New(s1, x.v * x.v * x.v) IN
         Commit(Emit(n2.st, x.lc, Var(n1.w), Var(n2.w)), <<Obj(x.v * x.v * x.v, Var(n2.w), "int")>>, [a |-> "powc", i |-> i, j |-> 0, v |-> c])

\* ---- bitwise operators on two secret integers: both operands are decomposed, one product per bit position
\* (the product of two boolean-typed bits x_k * y_k is evaluated as y_k.__rmul__(x_k): constraint (y_k, x_k, n_k);
\*  xor multiplies 2 * x_k first: constraint (y_k, 2 x_k, n_k))
RECURSIVE BitProducts(_, _, _, _, _, _)
BitProducts(st, tx, ty, k, scale, acc) ==
    IF k > Len(tx.ws) THEN [st |-> st, ns |-> acc]
    ELSE LET n == New(st, scale * tx.bs[k] * ty.bs[k])
             s2 == Emit(n.st, Var(ty.ws[k]), LScale(Var(tx.ws[k]), scale), Var(n.w)) IN
         BitProducts(s2, tx, ty, k + 1, scale, Append(acc, n.w))
ABitwise(op, i, j) ==
    Room(5 * BL + 2) /\
    LET tx == ToBitsW(St0, objs[i].v, objs[i].lc) IN
    IF tx.st.raised THEN Commit(tx.st, <<>>, [a |-> op, i |-> i, j |-> j, v |-> 0])
    ELSE LET ty == ToBitsW(tx.st, objs[j].v, objs[j].lc) IN
         IF ty.st.raised THEN Commit(ty.st, <<>>, [a |-> op, i |-> i, j |-> j, v |-> 0])
         ELSE LET pr == BitProducts(ty.st, tx, ty, 1, IF op = "xor" THEN 2 ELSE 1, <<>>)
                  terms == [k \in DOMAIN tx.ws |->
                              LET pv == (IF op = "xor" THEN 2 ELSE 1) * tx.bs[k] * ty.bs[k] IN
                              IF op = "and" THEN [v |-> pv, lc |-> Var(pr.ns[k])]
                              ELSE [v |-> tx.bs[k] + ty.bs[k] - pv, lc |-> LSub(LAdd(Var(tx.ws[k]), Var(ty.ws[k])), Var(pr.ns[k]))]]
                  r == BitSum(terms, 1, 1, [v |-> 0, lc |-> Zero]) IN
              Commit(pr.st, <<Obj(r.v, r.lc, "int")>>, [a |-> op, i |-> i, j |-> j, v |-> 0])

\* ---- powers with a SECRET exponent (and shifts by a secret count, which are built on 2 ** count):
\* the exponent is decomposed, all BL squarings are computed, each bit selects its power or ONE, the selections are multiplied up.
\* Python-level values are reduced modulo P after every squaring and every product.
RECURSIVE Squares(_, _, _, _)
Squares(st, cur, n, acc) ==
    IF n = 0 THEN [st |-> st, ps |-> acc]
    ELSE LET w == New(st, cur.v * cur.v)
             nx == [v |-> (cur.v * cur.v) % P, lc |-> Var(w.w)]
         IN Squares(Emit(w.st, cur.lc, cur.lc, Var(w.w)), nx, n - 1, Append(acc, nx))
\* bit == 1: the constant 1 becomes a boolean (its own boolean constraint 1 * (1 - 1) = 0 is emitted), then (bit - 1).check_zero()
BitIsOne(st, bv, bw) ==
    LET s1 == AddCon(st, 1, One, 0, Zero, 0, Zero, TRUE) IN CheckZero(s1, bv - 1, LSub(Var(bw), One))
\* (if_then_else returns `truev` untouched when it IS `falsev`: the base of the power may be the very object that serves as guard,
\*  and thereby as LinComb.ONE; `same` says so for the first power)
RECURSIVE Picks(_, _, _, _, _, _)
Picks(st, t, powers, k, acc, same) ==
    IF k > Len(t.ws) THEN [st |-> st, ms |-> acc]
    ELSE IF k = 1 /\ same THEN Picks(BitIsOne(st, t.bs[k], t.ws[k]).st, t, powers, k + 1, Append(acc, powers[k]), same)
    ELSE LET r  == BitIsOne(st, t.bs[k], t.ws[k])
             dv == powers[k].v - OneObj.v
             n  == New(r.st, r.v * dv)
             s2 == Emit(n.st, Var(r.w), LSub(powers[k].lc, OneObj.lc), Var(n.w))
         IN Picks(s2, t, powers, k + 1, Append(acc, [v |-> OneObj.v + r.v * dv, lc |-> LAdd(OneObj.lc, Var(n.w))]), same)
RECURSIVE ProdUp(_, _, _, _)
ProdUp(st, res, ms, k) ==
    IF k > Len(ms) THEN [st |-> st, v |-> res.v, lc |-> res.lc]
    ELSE LET w == New(st, res.v * ms[k].v) IN
         ProdUp(Emit(w.st, res.lc, ms[k].lc, Var(w.w)), [v |-> (res.v * ms[k].v) % P, lc |-> Var(w.w)], ms, k + 1)
PowGadget(st, xv, x, yv, y, same) ==
    LET t == ToBitsW(st, yv, y) IN
    IF t.st.raised THEN [st |-> t.st, v |-> 0, lc |-> Zero]
    ELSE LET sq == Squares(t.st, [v |-> xv, lc |-> x], BL, <<[v |-> xv, lc |-> x]>>)
             pk == Picks(sq.st, t, sq.ps, 1, <<>>, same)
         IN ProdUp(pk.st, [v |-> OneObj.v, lc |-> OneObj.lc], pk.ms, 1)
PowRoom == Room(9 * BL + 6)
GuardObj == IF gstack = <<>> THEN 0 ELSE gstack[Len(gstack)].o
APowS(i, j) == PowRoom /\ LET r == PowGadget(St0, objs[i].v, objs[i].lc, objs[j].v, objs[j].lc, GuardObj = i) IN
               Commit(r.st, <<Obj(r.v, r.lc, "int")>>, [a |-> "pows", i |-> i, j |-> j, v |-> 0])
\* x << s = x * (2 ** s): the power gadget on the constant 2, then one multiplication
ALShiftS(i, j) ==
    PowRoom /\
    LET r == PowGadget(St0, 2, LScale(One, 2), objs[j].v, objs[j].lc, FALSE) IN
    IF r.st.raised THEN Commit(r.st, <<>>, [a |-> "lshifts", i |-> i, j |-> j, v |-> 0])
    ELSE LET n == New(r.st, objs[i].v * r.v) IN
         Commit(Emit(n.st, objs[i].lc, r.lc, Var(n.w)), <<Obj(objs[i].v * r.v, Var(n.w), "int")>>, [a |-> "lshifts", i |-> i, j |-> j, v |-> 0])

\* x >> s = x // (2 ** s): the power gadget on the constant 2, then the floor-division gadget
ARShiftS(i, j) ==
    Room(13 * BL + 16) /\
    LET r == PowGadget(St0, 2, LScale(One, 2), objs[j].v, objs[j].lc, FALSE) IN
    IF r.st.raised THEN Commit(r.st, <<>>, [a |-> "rshifts", i |-> i, j |-> j, v |-> 0])
    ELSE LET d == DivMod(r.st, objs[i].v, objs[i].lc, r.v, r.lc) IN
         Commit(d.st, <<Obj(d.qv, Var(d.q), "int")>>, [a |-> "rshifts", i |-> i, j |-> j, v |-> 0])
\* x & c, x | c, x ^ c with a plain integer c: a fresh private value and NO constraint (known finding C02-bitwise-const-free)
BitOp(op, a, b) == LET n == 6 IN
    LET bits == [k \in 0..(n - 1) |-> CASE op = "and" -> Bit(a, k) * Bit(b, k)
                                          [] op = "or"  -> Bit(a, k) + Bit(b, k) - Bit(a, k) * Bit(b, k)
                                          [] op = "xor" -> (Bit(a, k) + Bit(b, k)) % 2] IN
    bits[0] + 2 * bits[1] + 4 * bits[2] + 8 * bits[3] + 16 * bits[4] + 32 * bits[5]
ABitwiseC(op, i, c) ==
    Room(1) /\ objs[i].v >= 0 /\ objs[i].v < 64 /\
    LET v == BitOp(op, objs[i].v, c) n == New(St0, v) IN
    Commit(n.st, <<Obj(v, Var(n.w), "int")>>, [a |-> op \o "c", i |-> i, j |-> 0, v |-> c])

\* ---- floor division and remainder: divmod, keeping one of the two results
AFloorDiv(i, j) ==
    Room(4 * BL + 10) /\
    LET r == DivMod(St0, objs[i].v, objs[i].lc, objs[j].v, objs[j].lc) IN
    Commit(r.st, <<Obj(r.qv, Var(r.q), "int")>>, [a |-> "floordiv", i |-> i, j |-> j, v |-> 0])
AMod(i, j) ==
    Room(4 * BL + 10) /\
    LET r == DivMod(St0, objs[i].v, objs[i].lc, objs[j].v, objs[j].lc) IN
    Commit(r.st, <<Obj(r.rv, Var(r.r), "int")>>, [a |-> "mod", i |-> i, j |-> j, v |-> 0])

\* ---- assertions between two secrets: Python-level check, then the gadget on the difference
\* assert_positive(): its own range check (same as to_bits'), then to_bits()
AssertPos(st, xv, x) == ToBits(st, xv, x)
AAssert(op, i, j) ==
    Room(2 * BL + 2) /\
    LET a == objs[i] b == objs[j]
        bad == CASE op = "assert_lt" -> a.v >= b.v [] op = "assert_le" -> a.v > b.v [] op = "assert_gt" -> a.v <= b.v
                 [] op = "assert_ge" -> a.v < b.v [] op = "assert_eq" -> a.v # b.v [] op = "assert_ne" -> a.v = b.v
        dv == CASE op = "assert_lt" -> b.v - a.v - 1 [] op = "assert_le" -> b.v - a.v [] op = "assert_gt" -> a.v - b.v - 1
                 [] op = "assert_ge" -> a.v - b.v [] OTHER -> a.v - b.v
        d  == CASE op = "assert_lt" -> LAdd(LSub(b.lc, a.lc), LScale(One, -1)) [] op = "assert_le" -> LSub(b.lc, a.lc)
                 [] op = "assert_gt" -> LAdd(LSub(a.lc, b.lc), LScale(One, -1)) [] OTHER -> LSub(a.lc, b.lc)
        h == [a |-> op, i |-> i, j |-> j, v |-> 0] IN
    IF ~Ign /\ bad THEN Commit(Fail(St0), <<>>, h)
    ELSE IF op \in {"assert_lt", "assert_le", "assert_gt", "assert_ge"} THEN Commit(AssertPos(St0, dv, d), <<>>, h)
    ELSE IF op = "assert_eq" THEN Commit(AssertZero(St0, dv, d), <<>>, h)
    ELSE \* assert_ne: (x - y).assert_nonzero()
         IF IsGuard /\ dv # 0
         THEN LET n == New(St0, Inv(dv)) IN Commit(AddCon(n.st, dv, d, Inv(dv), Var(n.w), OneObj.v, OneObj.lc, FALSE), <<>>, h)
         ELSE IF Ign THEN LET n == New(St0, 0) IN Commit(AddCon(n.st, dv, d, 0, Var(n.w), OneObj.v, OneObj.lc, FALSE), <<>>, h)
         ELSE Commit(Fail(St0), <<>>, h)

\* ---- fixed point (pysnark.fixedpoint.LinCombFxp): the object is its scaled integer; + - compare on the representations,
\* multiplication and division rescale through the integer floor-division gadget with the divisor 2^RES as a CONSTANT
\* linear combination (ConstVal) or the other operand
Scale == 2 ^ RES
AFxpNew(v) == Room(1) /\ LET n == New(St0, v) IN Commit(n.st, <<Obj(v, Var(n.w), "fxp")>>, [a |-> "privfxp", i |-> 0, j |-> 0, v |-> v])
AFxpAdd(i, j) == Commit(St0, <<Obj(objs[i].v + objs[j].v, LAdd(objs[i].lc, objs[j].lc), "fxp")>>, [a |-> "fadd", i |-> i, j |-> j, v |-> 0])
AFxpSub(i, j) == Commit(St0, <<Obj(objs[i].v - objs[j].v, LSub(objs[i].lc, objs[j].lc), "fxp")>>, [a |-> "fsub", i |-> i, j |-> j, v |-> 0])
\* x + c with a plain integer c: c is scaled, the constant one carries it
AFxpAddC(i, c) == Commit(St0, <<Obj(objs[i].v + c * Scale, LAdd(objs[i].lc, LScale(One, c * Scale)), "fxp")>>, [a |-> "faddc", i |-> i, j |-> 0, v |-> c])
AFxpMulC(i, c) == Commit(St0, <<Obj(objs[i].v * c, LScale(objs[i].lc, c), "fxp")>>, [a |-> "fmulc", i |-> i, j |-> 0, v |-> c])
\* x * y: the product of the representations (one multiplication), floor-divided by the constant 2^RES
AFxpMul(i, j) ==
    Room(4 * BL + 12) /\
    LET pv == objs[i].v * objs[j].v
        n  == New(St0, pv)
        s1 == Emit(n.st, objs[i].lc, objs[j].lc, Var(n.w))
        r  == DivMod(s1, pv, Var(n.w), Scale, LScale(One, Scale)) IN
    Commit(r.st, <<Obj(r.qv, Var(r.q), "fxp")>>, [a |-> "fmul", i |-> i, j |-> j, v |-> 0])
\* x / y: (x * 2^RES) // y on the representations
AFxpTrueDiv(i, j) ==
    Room(4 * BL + 12) /\
    LET r == DivMod(St0, objs[i].v * Scale, LScale(objs[i].lc, Scale), objs[j].v, objs[j].lc) IN
    Commit(r.st, <<Obj(r.qv, Var(r.q), "fxp")>>, [a |-> "ftruediv", i |-> i, j |-> j, v |-> 0])
\* x // y: the integer quotient of the representations, scaled back up
AFxpFloorDiv(i, j) ==
    Room(4 * BL + 12) /\
    LET r == DivMod(St0, objs[i].v, objs[i].lc, objs[j].v, objs[j].lc) IN
    Commit(r.st, <<Obj(r.qv * Scale, LScale(Var(r.q), Scale), "fxp")>>, [a |-> "ffloordiv", i |-> i, j |-> j, v |-> 0])
AFxpLt(i, j) == Room(2 * BL + 4) /\ LET xv == objs[j].v - objs[i].v - 1 x == LAdd(LSub(objs[j].lc, objs[i].lc), LScale(One, -1)) r == CheckPos(St0, xv, x) IN
                Commit(r.st, <<Obj(r.v, Var(r.w), "bool")>>, [a |-> "flt", i |-> i, j |-> j, v |-> 0])

\* guarded regions: add_guard with a boolean-typed (or 0/1 integer) secret condition; nested: guard & cond on the 0/1 LinCombs
\* (LinComb.__and__ of two secrets decomposes both: not modelled -- regions are entered only from the top level here)
AEnter(i) == /\ gstack = <<>> /\ objs[i].v \in {0, 1} /\ ~raised
             \* o: which OBJECT the guard (and thereby LinComb.ONE) is -- an integer-typed condition is used as it is, a
             \* boolean-typed one is unwrapped to its inner linear combination, which is none of the objects the program holds
             /\ gstack' = <<[lc |-> objs[i].lc, v |-> objs[i].v, o |-> IF objs[i].k = "int" THEN i ELSE 0]>>
             /\ hist' = Append(hist, [a |-> "enter", i |-> i, j |-> 0, v |-> 0])
             /\ UNCHANGED <<wit, cons, objs, uign, raised>>
ALeave == /\ gstack # <<>> /\ gstack' = <<>>
          /\ hist' = Append(hist, [a |-> "leave", i |-> 0, j |-> 0, v |-> 0])
          /\ UNCHANGED <<wit, cons, objs, uign, raised>>
ASetIgn == /\ gstack = <<>> /\ ~uign /\ uign' = TRUE
           /\ hist' = Append(hist, [a |-> "ignore", i |-> 0, j |-> 0, v |-> 1])
           /\ UNCHANGED <<wit, cons, objs, gstack, raised>>

Consts == {-1, 2}
\* which object kinds an operation is modelled for: boolean-typed objects forward +, -, *, zero tests and sign tests to the
\* same gadgets, but have no to_bits and compare through a conversion of the OTHER operand (not modelled: int-typed only)
Ints == {i \in DOMAIN objs : objs[i].k = "int"}
Fxps == {i \in DOMAIN objs : objs[i].k = "fxp"}
Plain == {i \in DOMAIN objs : objs[i].k # "fxp"}      \* integer- and boolean-typed objects
Next == /\ Len(hist) < MaxLen /\ ~raised
        /\ \/ \E v \in Vals : APriv(v)
           \/ \E b \in {0, 1} : ABool(b)
           \/ \E i, j \in Plain : AAdd(i, j) \/ ASub(i, j) \/ AMul(i, j)
           \/ (Wide /\ \E v \in Vals : AFxpNew(v))
           \/ (Wide /\ \E i, j \in Fxps : (AFxpAdd(i, j) \/ AFxpSub(i, j) \/ AFxpMul(i, j) \/ AFxpTrueDiv(i, j) \/ AFxpFloorDiv(i, j) \/ AFxpLt(i, j)))
           \/ (Wide /\ \E i \in Fxps, c \in Consts : (AFxpAddC(i, c) \/ AFxpMulC(i, c)))
           \/ \E i, j \in Ints : ALt(i, j) \/ ATrueDiv(i, j) \/ ADivMod(i, j)
           \/ (Wide /\ \E i, j \in Ints : (\E o1 \in {"le", "gt", "ge"} : ACmp(o1, i, j)))
           \/ (Wide /\ \E i, j \in Ints : (AEq(i, j) \/ ANe(i, j) \/ AFloorDiv(i, j) \/ AMod(i, j)))
           \/ (Wide /\ \E i, j \in Ints : (APowS(i, j) \/ ALShiftS(i, j) \/ ARShiftS(i, j)))
           \/ (Wide /\ \E i \in Ints : (\E o4 \in {"and", "or", "xor"} : \E c \in {1, 2} : ABitwiseC(o4, i, c)))
           \/ (Wide /\ \E i, j \in Ints : (\E o2 \in {"and", "or", "xor"} : ABitwise(o2, i, j)))
           \/ (Wide /\ \E i, j \in Ints : (\E o3 \in {"assert_lt", "assert_le", "assert_gt", "assert_ge", "assert_eq", "assert_ne"} : AAssert(o3, i, j)))
           \/ (Wide /\ \E i \in Ints : (ANeg(i) \/ AAbs(i) \/ AInvert(i)))
           \/ (Wide /\ \E i \in Ints : (\E c \in {1, 2} : (ALShiftC(i, c) \/ ARShiftC(i, c))))
           \/ (Wide /\ \E i \in Ints : (\E c \in {2, 3} : APowC(i, c)))
           \/ \E i \in Ints, c \in {2, 3} : ATrueDivC(i, c)
           \/ \E c \in Plain, i, j \in Ints : AIte(c, i, j)
           \/ \E i \in Ints : AAssertNonzero(i)
           \/ \E i \in Plain, c \in Consts : AAddC(i, c) \/ AMulC(i, c)
           \/ \E i \in Plain : AAssertZero(i) \/ ACheckZero(i) \/ ACheckPos(i) \/ AEnter(i)
           \/ \E i \in Ints : AToBits(i)
           \/ ALeave \/ ASetIgn
Spec == Init /\ [][Next]_vars

---------------------------------------------------------------------------
\* C01 on the model: the recorded witness satisfies every emitted constraint
Holds(c) == /\ Scoped(c[1], wit) /\ Scoped(c[2], wit) /\ Scoped(c[3], wit)
            /\ (Eval(c[1], wit) * Eval(c[2], wit)) % P = Eval(c[3], wit)
Inv_Sat == (~raised /\ ~uign) => \A k \in DOMAIN cons : Holds(cons[k])

\* C04 on the model
Inv_ValLC == \A k \in DOMAIN objs : Scoped(objs[k].lc, wit) /\ Eval(objs[k].lc, wit) = objs[k].v % P

\* booleans are 0/1 (C02, honest side)
Inv_Bool == \A k \in DOMAIN objs : objs[k].k = "bool" => objs[k].v \in {0, 1}

\* generator: every behaviour of exactly MaxLen calls (and those that ended in a raise), with the model's final state
EmitBeh == (Len(hist) = MaxLen \/ raised) =>
          PrintT(<<"BEH", ToJson([hist |-> hist, raised |-> raised, wit |-> wit, ncons |-> Len(cons), cons |-> cons,
                                  vals |-> [k \in DOMAIN objs |-> objs[k].v], kinds |-> [k \in DOMAIN objs |-> objs[k].k]])>>)
=============================================================================
