------------------------------- MODULE Tracer -------------------------------
(***************************************************************************)
(* Mechanism specification of the core of pysnark.runtime / boolean: the   *)
(* tracer state and the constraint gadgets, transcribed from the code and  *)
(* structured like it (one action per public call; compound gadgets thread *)
(* a builder state through LET).                                           *)
(*                                                                         *)
(* State:  wit    private witness values (residues mod P), wire w = wit[w] *)
(*                (wire 0 is the constant one)                             *)
(*         cons   emitted constraints <<A, B, C>>, an LC being a function  *)
(*                0..MaxW -> 0..P-1 (coefficient per wire)                 *)
(*         objs   the secret-typed objects returned so far: [v, lc, k]     *)
(*                v = Python-level integer value, k in {"int","bool"}      *)
(*         gstack the open guarded regions (object index of the condition, *)
(*                wire expression and value of the effective guard)        *)
(*         uign   user's ignore_errors flag;  raised: some call raised     *)
(*                                                                         *)
(* TLC checks on this model, exhaustively within the constants: the        *)
(* recorded witness satisfies every constraint (C01), every object's value *)
(* equals its wire expression (C04), boolean objects are 0/1, results      *)
(* agree with Python semantics when no raise occurred outside a false      *)
(* guard (C05); and prints every behaviour for replay into the real code,  *)
(* where the recorded witness, constraints and results are compared with   *)
(* the model's (conformance).                                              *)
(***************************************************************************)
EXTENDS Integers, Sequences, TLC, Json

CONSTANTS P,        \* field prime (small)
          BL,       \* runtime.bitlength
          MaxW,     \* bound on the number of private wires
          MaxLen,   \* bound on the number of public calls
          Vals      \* input values for PrivVal

VARIABLES wit, cons, objs, gstack, uign, raised, hist
vars == <<wit, cons, objs, gstack, uign, raised, hist>>

\* value sets for the cfg files (the cfg grammar has no negative literals): CONSTANT Vals <- ValsThorough
ValsQuick == {0, 1, 3}
ValsThorough == {-1, 0, 1, 3}

Wires == 0..MaxW
Zero  == [w \in Wires |-> 0]
One   == [Zero EXCEPT ![0] = 1]
Var(i) == [Zero EXCEPT ![i] = 1]
LAdd(a, b)   == [w \in Wires |-> (a[w] + b[w]) % P]
LScale(a, k) == [w \in Wires |-> (a[w] * (k % P)) % P]
LNeg(a)      == LScale(a, -1)
LSub(a, b)   == LAdd(a, LNeg(b))

WVal(w, ws) == IF w = 0 THEN 1 ELSE IF w <= Len(ws) THEN ws[w] ELSE 0
RECURSIVE EvalFrom(_, _, _)
EvalFrom(lc, w, ws) == IF w > MaxW THEN 0 ELSE (lc[w] * WVal(w, ws) + EvalFrom(lc, w + 1, ws)) % P
Eval(lc, ws) == EvalFrom(lc, 0, ws)
Scoped(lc, ws) == \A w \in Wires : lc[w] # 0 => w <= Len(ws)

\* field inverse by search (P is small)
Inv(x) == IF x % P = 0 THEN 0 ELSE CHOOSE y \in 1..(P - 1) : (x * y) % P = 1

\* ---- builder state threaded through the gadgets
\* st = [wit, cons, raised];  guard context g = [on, lc, v] (effective guard), ign = effective ignore flag
Guard == IF gstack = <<>> THEN [on |-> FALSE, lc |-> One, v |-> 1] ELSE [on |-> TRUE, lc |-> gstack[Len(gstack)].lc, v |-> gstack[Len(gstack)].v]
Ign   == uign \/ \E i \in DOMAIN gstack : gstack[i].v = 0
IsGuard == ~Guard.on \/ Guard.v = 1        \* runtime.is_guard()
OneObj == [v |-> Guard.v, lc |-> Guard.lc]  \* LinComb.ONE is rebound to the guard inside regions

St0 == [wit |-> wit, cons |-> cons, raised |-> FALSE]
New(st, v) == [st |-> [st EXCEPT !.wit = Append(@, v % P)], w |-> Len(st.wit) + 1]      \* backend.privval
Emit(st, a, b, c) == [st EXCEPT !.cons = Append(@, <<a, b, c>>)]                       \* add_constraint_unsafe
Fail(st) == [st EXCEPT !.raised = TRUE]

\* runtime.add_constraint(v, w, y, check): guarded form adds a dummy, unguarded form checks over the integers
AddCon(st, av, a, bv, b, cv, c, check) ==
    IF Guard.on
    THEN LET d == New(st, av * bv - cv) IN
         Emit(Emit(d.st, a, b, LAdd(c, Var(d.w))), Guard.lc, Var(d.w), Zero)
    ELSE IF av * bv # cv /\ check /\ ~Ign THEN Fail(st) ELSE Emit(st, a, b, c)

\* LinComb.assert_zero
AssertZero(st, xv, x) == IF ~Ign /\ xv # 0 THEN Fail(st) ELSE AddCon(st, 0, Zero, 0, Zero, xv, x, TRUE)

\* PrivValBool(b): PrivVal + LinCombBool(lc): lc * (1 - lc) = 0
NewBool(st, b) == LET n == New(st, b) IN [st |-> AddCon(n.st, b, Var(n.w), 1 - b, LSub(One, Var(n.w)), 0, Zero, TRUE), w |-> n.w]

RECURSIVE NewBits(_, _, _)          \* allocate bits b[i..] of value-list bs; returns [st, ws (wires), sum (sum of 2^i bit_i as LC), sv (its value)]
NewBits(st, bs, i) ==
    IF i > Len(bs) THEN [st |-> st, sum |-> Zero, sv |-> 0]
    ELSE LET nb == NewBool(st, bs[i]) rest == NewBits(nb.st, bs, i + 1) IN
         [st |-> rest.st, sum |-> LAdd(LScale(Var(nb.w), 2 ^ (i - 1)), rest.sum), sv |-> bs[i] * (2 ^ (i - 1)) + rest.sv]

Bit(v, i) == (v \div (2 ^ i)) % 2            \* (v & (1 << i)) >> i for any integer v (floor semantics = two's complement)
BitsOf(v, n) == [i \in 1..n |-> Bit(v, i - 1)]
BitLength(v) == LET a == IF v < 0 THEN -v ELSE v IN
                IF a = 0 THEN 0 ELSE CHOOSE n \in 1..31 : 2 ^ (n - 1) <= a /\ a < 2 ^ n

\* LinComb.to_bits(): raises unless 0 <= v < 2^BL (or errors ignored); bits then (x - sum).assert_zero()
ToBits(st, xv, x) ==
    IF ~Ign /\ (xv < 0 \/ BitLength(xv) > BL) THEN Fail(st)
    ELSE LET nb == NewBits(st, BitsOf(xv, BL), 1) IN AssertZero(nb.st, xv - nb.sv, LSub(x, nb.sum))

\* LinComb.check_positive(): result bit + decomposition of v (or -v-1); one product constraint
CheckPos(st, xv, x) ==
    LET mag == IF xv >= 0 THEN xv ELSE -xv - 1
        okk == IsGuard /\ BitLength(mag) <= BL IN
    IF ~okk /\ ~Ign THEN [st |-> Fail(st), w |-> 0, v |-> 0]
    ELSE LET rv == IF okk THEN (IF xv >= 0 THEN 1 ELSE 0) ELSE 0
             r  == NewBool(st, rv)
             nb == NewBits(r.st, IF okk THEN BitsOf(mag, BL) ELSE [i \in 1..BL |-> 0], 1)
             \* add_constraint(2*ret, self, self + from_bits(bits) + (1 - ret))
             s2 == AddCon(nb.st, 2 * rv, LScale(Var(r.w), 2), xv, x, xv + nb.sv + (1 - rv), LAdd(LAdd(x, nb.sum), LSub(One, Var(r.w))), TRUE)
         IN [st |-> s2, w |-> r.w, v |-> rv]

\* LinComb.check_zero(): Pinocchio trick, both constraints unguarded (ONE_SAFE is the true constant one)
CheckZero(st, xv, x) ==
    LET rv == IF xv = 0 THEN 1 ELSE 0
        r  == New(st, rv)
        wv == Inv(xv + rv)
        wt == New(r.st, wv)
    IN [st |-> Emit(Emit(wt.st, x, Var(wt.w), LSub(One, Var(r.w))), x, Var(r.w), Zero), w |-> r.w, v |-> rv]

\* LinComb.assert_positive() = to_bits() at the default width;  assert_lt(other): Python-level check, then
\* (other - self - 1).assert_positive()
AssertLt(st, av, a, bv, b) ==
    IF ~Ign /\ av >= bv THEN Fail(st) ELSE ToBits(st, bv - av - 1, LAdd(LSub(b, a), LScale(One, -1)))

\* LinComb.__divmod__(divisor) with a secret divisor: quotient and remainder hints, quo * d = self - rem,
\* rem < d, rem >= 0.  (The quotient itself is not range-checked: known finding C02-divmod-quotient-free.)
DivMod(st, av, a, dv, d) ==
    IF dv = 0 THEN [st |-> Fail(st), q |-> 0, qv |-> 0, r |-> 0, rv |-> 0]
    ELSE LET qv == IF dv > 0 THEN av \div dv ELSE (-av) \div (-dv)
             q  == New(st, qv)
             pr == New(q.st, qv * dv)                               \* res = quo * divisor (1 constraint, unguarded)
             s1 == Emit(pr.st, Var(q.w), d, Var(pr.w))
             rv == av - qv * dv
             r  == New(s1, rv)
             s2 == AddCon(r.st, qv, Var(q.w), dv, d, av - rv, LSub(a, Var(r.w)), TRUE)
             s3 == IF s2.raised THEN s2 ELSE AssertLt(s2, rv, Var(r.w), dv, d)
             s4 == IF s3.raised THEN s3 ELSE ToBits(s3, rv, Var(r.w))
         IN [st |-> s4, q |-> q.w, qv |-> qv, r |-> r.w, rv |-> rv]

---------------------------------------------------------------------------
Init == /\ wit = <<>> /\ cons = <<>> /\ objs = <<>> /\ gstack = <<>> /\ uign = FALSE /\ raised = FALSE /\ hist = <<>>

Room(k) == Len(wit) + k <= MaxW
Commit(st, newobjs, h) ==
    /\ wit' = st.wit /\ cons' = st.cons
    /\ raised' = (raised \/ st.raised)
    /\ objs' = IF st.raised THEN objs ELSE objs \o newobjs
    /\ hist' = Append(hist, h)
    /\ UNCHANGED <<gstack, uign>>
Obj(v, lc, k) == [v |-> v, lc |-> lc, k |-> k]

APriv(v) == Room(1) /\ LET n == New(St0, v) IN Commit(n.st, <<Obj(v, Var(n.w), "int")>>, [a |-> "priv", i |-> 0, j |-> 0, v |-> v])
ABool(b) == Room(2) /\ LET n == NewBool(St0, b) IN Commit(n.st, <<Obj(b, Var(n.w), "bool")>>, [a |-> "privbool", i |-> 0, j |-> 0, v |-> b])
AAdd(i, j) == Commit(St0, <<Obj(objs[i].v + objs[j].v, LAdd(objs[i].lc, objs[j].lc), "int")>>, [a |-> "add", i |-> i, j |-> j, v |-> 0])
ASub(i, j) == Commit(St0, <<Obj(objs[i].v - objs[j].v, LSub(objs[i].lc, objs[j].lc), "int")>>, [a |-> "sub", i |-> i, j |-> j, v |-> 0])
AAddC(i, c) == Commit(St0, <<Obj(objs[i].v + c, LAdd(objs[i].lc, LScale(One, c)), "int")>>, [a |-> "addc", i |-> i, j |-> 0, v |-> c])
AMulC(i, c) == Commit(St0, <<Obj(objs[i].v * c, LScale(objs[i].lc, c), "int")>>, [a |-> "mulc", i |-> i, j |-> 0, v |-> c])
\* x * y: LinComb.__mul__ emits (x, y, ret); when y is boolean-typed Python falls back to y.__rmul__(x), i.e. (y, x, ret)
AMul(i, j) == Room(1) /\ LET n == New(St0, objs[i].v * objs[j].v)
                             a == IF objs[j].k = "bool" THEN objs[j].lc ELSE objs[i].lc
                             b == IF objs[j].k = "bool" THEN objs[i].lc ELSE objs[j].lc IN
              Commit(Emit(n.st, a, b, Var(n.w)), <<Obj(objs[i].v * objs[j].v, Var(n.w), "int")>>, [a |-> "mul", i |-> i, j |-> j, v |-> 0])
AAssertZero(i) == Room(1) /\ Commit(AssertZero(St0, objs[i].v, objs[i].lc), <<>>, [a |-> "assert_zero", i |-> i, j |-> 0, v |-> 0])
ACheckZero(i) == Room(2) /\ LET r == CheckZero(St0, objs[i].v, objs[i].lc) IN
                 Commit(r.st, <<Obj(r.v, Var(r.w), "bool")>>, [a |-> "check_zero", i |-> i, j |-> 0, v |-> 0])
AToBits(i) == Room(2 * BL + 1) /\ Commit(ToBits(St0, objs[i].v, objs[i].lc), <<>>, [a |-> "to_bits", i |-> i, j |-> 0, v |-> 0])
\* x >= 0  is  x.check_positive();  x < y  is  (y - x - 1).check_positive()
ACheckPos(i) == Room(2 * BL + 4) /\ LET r == CheckPos(St0, objs[i].v, objs[i].lc) IN
                Commit(r.st, <<Obj(r.v, Var(r.w), "bool")>>, [a |-> "check_positive", i |-> i, j |-> 0, v |-> 0])
ALt(i, j) == Room(2 * BL + 4) /\ LET xv == objs[j].v - objs[i].v - 1 x == LAdd(LSub(objs[j].lc, objs[i].lc), LScale(One, -1)) r == CheckPos(St0, xv, x) IN
             Commit(r.st, <<Obj(r.v, Var(r.w), "bool")>>, [a |-> "lt", i |-> i, j |-> j, v |-> 0])

\* x / c with a plain integer c # 0: exact quotient, or (checks off) the field quotient; no constraint
ATrueDivC(i, c) ==
    LET v == objs[i].v IN
    IF IsGuard /\ v % c = 0
    THEN Commit(St0, <<Obj(v \div c, LScale(objs[i].lc, Inv(c)), "int")>>, [a |-> "truedivc", i |-> i, j |-> 0, v |-> c])
    ELSE IF Ign THEN Commit(St0, <<Obj((v * Inv(c)) % P, LScale(objs[i].lc, Inv(c)), "int")>>, [a |-> "truedivc", i |-> i, j |-> 0, v |-> c])
    ELSE Commit(Fail(St0), <<>>, [a |-> "truedivc", i |-> i, j |-> 0, v |-> c])

\* x / y with a secret y: hint + one (guard-aware) constraint y * res = x
ATrueDiv(i, j) ==
    Room(2) /\
    LET xv == objs[i].v yv == objs[j].v IN
    IF yv = 0 THEN Commit(Fail(St0), <<>>, [a |-> "truediv", i |-> i, j |-> j, v |-> 0])
    ELSE IF (IsGuard /\ xv % (IF yv < 0 THEN -yv ELSE yv) = 0) \/ Ign
    THEN LET qv == IF IsGuard /\ xv % (IF yv < 0 THEN -yv ELSE yv) = 0 THEN (IF yv > 0 THEN xv \div yv ELSE (-xv) \div (-yv)) ELSE 0
             n == New(St0, qv) IN
         Commit(AddCon(n.st, yv, objs[j].lc, qv, Var(n.w), xv, objs[i].lc, TRUE), <<Obj(qv, Var(n.w), "int")>>, [a |-> "truediv", i |-> i, j |-> j, v |-> 0])
    ELSE Commit(Fail(St0), <<>>, [a |-> "truediv", i |-> i, j |-> j, v |-> 0])

\* divmod(x, y) with a secret y
ADivMod(i, j) ==
    Room(4 * BL + 10) /\
    LET r == DivMod(St0, objs[i].v, objs[i].lc, objs[j].v, objs[j].lc) IN
    Commit(r.st, <<Obj(r.qv, Var(r.q), "int"), Obj(r.rv, Var(r.r), "int")>>, [a |-> "divmod", i |-> i, j |-> j, v |-> 0])

\* if_then_else(cond, t, f) on computed values: f + cond * (t - f), one multiplication (cond.lc first)
AIte(c, i, j) ==
    objs[c].k = "bool" /\
    IF i = j       \* `if truev is falsev: return truev` -- the very same object comes back, nothing new exists
    THEN Commit(St0, <<>>, [a |-> "ite", i |-> i, j |-> j, v |-> c])
    ELSE Room(1) /\
         LET dv == objs[i].v - objs[j].v
             n == New(St0, objs[c].v * dv)
             st == Emit(n.st, objs[c].lc, LSub(objs[i].lc, objs[j].lc), Var(n.w)) IN
         Commit(st, <<Obj(objs[j].v + objs[c].v * dv, LAdd(objs[j].lc, Var(n.w)), "int")>>, [a |-> "ite", i |-> i, j |-> j, v |-> c])

\* assert_nonzero: inverse hint (or 0 with checks off), constraint x * wit = ONE without the integer check
AAssertNonzero(i) ==
    Room(2) /\
    LET v == objs[i].v IN
    IF IsGuard /\ v # 0
    THEN LET n == New(St0, Inv(v)) IN Commit(AddCon(n.st, v, objs[i].lc, Inv(v), Var(n.w), OneObj.v, OneObj.lc, FALSE), <<>>, [a |-> "assert_nonzero", i |-> i, j |-> 0, v |-> 0])
    ELSE IF Ign THEN LET n == New(St0, 0) IN Commit(AddCon(n.st, v, objs[i].lc, 0, Var(n.w), OneObj.v, OneObj.lc, FALSE), <<>>, [a |-> "assert_nonzero", i |-> i, j |-> 0, v |-> 0])
    ELSE Commit(Fail(St0), <<>>, [a |-> "assert_nonzero", i |-> i, j |-> 0, v |-> 0])

\* guarded regions: add_guard with a boolean-typed (or 0/1 integer) secret condition; nested: guard & cond on the 0/1 LinCombs
\* (LinComb.__and__ of two secrets decomposes both: not modelled -- regions are entered only from the top level here)
AEnter(i) == /\ gstack = <<>> /\ objs[i].v \in {0, 1} /\ ~raised
             /\ gstack' = <<[lc |-> objs[i].lc, v |-> objs[i].v]>>
             /\ hist' = Append(hist, [a |-> "enter", i |-> i, j |-> 0, v |-> 0])
             /\ UNCHANGED <<wit, cons, objs, uign, raised>>
ALeave == /\ gstack # <<>> /\ gstack' = <<>>
          /\ hist' = Append(hist, [a |-> "leave", i |-> 0, j |-> 0, v |-> 0])
          /\ UNCHANGED <<wit, cons, objs, uign, raised>>
ASetIgn == /\ gstack = <<>> /\ ~uign /\ uign' = TRUE
           /\ hist' = Append(hist, [a |-> "ignore", i |-> 0, j |-> 0, v |-> 1])
           /\ UNCHANGED <<wit, cons, objs, gstack, raised>>

Consts == {-1, 2}
\* which object kinds an operation is modelled for: boolean-typed objects forward +, -, *, zero tests and sign tests to the
\* same gadgets, but have no to_bits and compare through a conversion of the OTHER operand (not modelled: int-typed only)
Ints == {i \in DOMAIN objs : objs[i].k = "int"}
Next == /\ Len(hist) < MaxLen /\ ~raised
        /\ \/ \E v \in Vals : APriv(v)
           \/ \E b \in {0, 1} : ABool(b)
           \/ \E i, j \in DOMAIN objs : AAdd(i, j) \/ ASub(i, j) \/ AMul(i, j)
           \/ \E i, j \in Ints : ALt(i, j) \/ ATrueDiv(i, j) \/ ADivMod(i, j)
           \/ \E i \in Ints, c \in {2, 3} : ATrueDivC(i, c)
           \/ \E c \in DOMAIN objs, i, j \in Ints : AIte(c, i, j)
           \/ \E i \in Ints : AAssertNonzero(i)
           \/ \E i \in DOMAIN objs, c \in Consts : AAddC(i, c) \/ AMulC(i, c)
           \/ \E i \in DOMAIN objs : AAssertZero(i) \/ ACheckZero(i) \/ ACheckPos(i) \/ AEnter(i)
           \/ \E i \in Ints : AToBits(i)
           \/ ALeave \/ ASetIgn
Spec == Init /\ [][Next]_vars

---------------------------------------------------------------------------
\* C01 on the model: the recorded witness satisfies every emitted constraint
Holds(c) == /\ Scoped(c[1], wit) /\ Scoped(c[2], wit) /\ Scoped(c[3], wit)
            /\ (Eval(c[1], wit) * Eval(c[2], wit)) % P = Eval(c[3], wit)
Inv_Sat == (~raised /\ ~uign) => \A k \in DOMAIN cons : Holds(cons[k])

\* C04 on the model
Inv_ValLC == \A k \in DOMAIN objs : Scoped(objs[k].lc, wit) /\ Eval(objs[k].lc, wit) = objs[k].v % P

\* booleans are 0/1 (C02, honest side)
Inv_Bool == \A k \in DOMAIN objs : objs[k].k = "bool" => objs[k].v \in {0, 1}

\* generator: every behaviour of exactly MaxLen calls (and those that ended in a raise), with the model's final state
EmitBeh == (Len(hist) = MaxLen \/ raised) =>
          PrintT(<<"BEH", ToJson([hist |-> hist, raised |-> raised, wit |-> wit, ncons |-> Len(cons), cons |-> cons,
                                  vals |-> [k \in DOMAIN objs |-> objs[k].v], kinds |-> [k \in DOMAIN objs |-> objs[k].k]])>>)
=============================================================================
