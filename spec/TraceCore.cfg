SPECIFICATION Spec
INVARIANT Inv_Sat
INVARIANT Inv_ValLC
CHECK_DEADLOCK FALSE
