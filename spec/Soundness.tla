----------------------------- MODULE Soundness -----------------------------
(***************************************************************************)
(* The adversarial prover.  An instance is the constraint system of ONE    *)
(* operation captured from the real code: the wires that existed before    *)
(* the call (operands, guards) are fixed to their honest values, the wires *)
(* the call allocated are free.  TLC assigns the free wires one at a time, *)
(* every field element each, pruning as soon as a constraint all of whose  *)
(* wires are assigned is false.  A state with all wires assigned that      *)
(* survives is a witness a verifier would accept.                          *)
(*   C02  Unique   : in every such witness the results equal the honest    *)
(*                   ones, boolean results are 0/1.                        *)
(*   C03  Enforced : if the asserted relation is false, no such witness    *)
(*                   exists; if true and accepted the honest one is one;   *)
(*                   run-time acceptance equals the relation.              *)
(***************************************************************************)
EXTENDS Integers, Sequences, TLC, Json, R1CS, PyRef, KnownDeviations

CONSTANT TraceFile
Data   == JsonDeserialize(TraceFile)
Insts  == Data.insts
Active == Data.active

VARIABLES tid, apub, apriv
vars == <<tid, apub, apriv>>

I == Insts[tid]
P == I.P

Full == Len(apub) = Len(I.pub) /\ Len(apriv) = Len(I.priv)
Pos  == (Len(apub) - I.fixpub) + (Len(apriv) - I.fixpriv)

Init == /\ tid \in 1..Len(Insts)
        /\ apub  = SubSeq(Insts[tid].pub, 1, Insts[tid].fixpub)
        /\ apriv = SubSeq(Insts[tid].priv, 1, Insts[tid].fixpriv)

\* constraints that become fully assigned by the assignment at aux position k (index computed by
\* the harness; a wrong index can only weaken pruning: the final verdict re-checks every constraint)
ReadyOK(k, np, nq) == \A x \in DOMAIN I.readyidx[k] :
                        LET c == I.cons[I.readyidx[k][x]] IN
                        ConScoped(c, np, nq) => Holds(c, np, nq, P)

Assign == /\ ~Full /\ tid' = tid
          /\ \E v \in 0..(P - 1) :
               IF I.order[Pos + 1] = "pub"
               THEN /\ ReadyOK(Pos + 1, Append(apub, v), apriv)
                    /\ apub' = Append(apub, v) /\ apriv' = apriv
               ELSE /\ ReadyOK(Pos + 1, apub, Append(apriv, v))
                    /\ apriv' = Append(apriv, v) /\ apub' = apub

Next == Assign
Spec == Init /\ [][Next]_vars

\* every constraint whose wires are all assigned holds
Ok == \A j \in DOMAIN I.cons :
         ConScoped(I.cons[j], apub, apriv) => Holds(I.cons[j], apub, apriv, P)

Accepting == Full /\ Ok

HonestSat == Sat(I.cons, I.pub, I.priv, P)

---------------------------------------------------------------------------
ResOK(r) == /\ Eval(r.lc, apub, apriv, P) = r.m
            /\ (r.k = "bool" => Eval(r.lc, apub, apriv, P) \in {0, 1})

ResultsHonest == \A j \in DOMAIN I.res : ResOK(I.res[j])

Alt == [j \in DOMAIN I.res |-> Eval(I.res[j].lc, apub, apriv, P)]

Inv_Unique ==
    (I.mode = "unique" /\ Accepting /\ HonestSat) =>
        (ResultsHonest \/ KnownUnique(Active, I, Alt, P))

---------------------------------------------------------------------------
RelI == IF I.op = "assert_range" THEN RelRange(I.a, I.b, I.c) ELSE Rel(I.op, I.a, I.b, I.n)
WinI == IF I.op = "assert_range"
        THEN (I.a - I.b < Pow(2, I.n) /\ I.c - I.a - 1 < Pow(2, I.n) /\ I.b - I.a <= Pow(2, I.n) /\ I.a - I.c < Pow(2, I.n))
        ELSE InWindow(I.op, I.a, I.b, I.n)

\* a false relation must leave no accepting witness
Inv_Enforced ==
    (I.mode = "assert" /\ ~RelI /\ Accepting) => KnownEnforced(Active, I, P)

\* a true, accepted relation is satisfied by the honest witness
Inv_Complete ==
    (I.mode = "assert" /\ RelI /\ I.accepted /\ Pos = 0) => HonestSat

\* run time applies the same relation (inside the representable window)
Inv_SameRel ==
    (I.mode = "assert" /\ Pos = 0 /\ WinI) => ((I.accepted <=> RelI) \/ KnownSameRel(Active, I, P))

\* the same for end-to-end sequences (the assertion is the LAST call of a program): judged unless an earlier call of the program
\* was itself refused with checks on (then the run never reaches the assertion)
Inv_SameRelSeq == ~I.skip_samerel => Inv_SameRel

---------------------------------------------------------------------------
(* Free-operand variant: the operand wires are adversarial too, so one     *)
(* captured instance covers EVERY operand value of the field.  The         *)
(* relation is stated on residues (what a gadget over the field can        *)
(* enforce); inside the no-wrap window it coincides with Rel.              *)
OpVal(w, const) == IF w = 0 THEN const % P ELSE WireVal(w, apub, apriv)
AV == OpVal(I.awire, I.a)
BV == OpVal(I.bwire, I.b)
CV == OpVal(I.cwire, I.c)
W  == Pow(2, I.n)

RelField ==
    CASE I.op = "assert_eq" -> AV = BV
      [] I.op = "assert_ne" -> AV # BV
      [] I.op = "assert_lt" -> (BV - AV - 1) % P < W
      [] I.op = "assert_le" -> (BV - AV) % P < W
      [] I.op = "assert_gt" -> (AV - BV - 1) % P < W
      [] I.op = "assert_ge" -> (AV - BV) % P < W
      [] I.op = "assert_zero" -> AV = 0
      [] I.op = "assert_nonzero" -> AV # 0
      [] I.op = "assert_positive" -> AV < W
      [] I.op = "to_bits" -> AV < W
      [] I.op = "bool" -> AV \in {0, 1}
      [] I.op = "assert_range" -> (AV - BV) % P < W /\ (CV - AV - 1) % P < W

Inv_EnforcedFree == (I.mode = "assert_free" /\ Accepting) => RelField
=============================================================================
