SPECIFICATION TSpec
CONSTANT MaxDepth = 8
CONSTANT RaiseKinds = {0, 1, 2, 3}
CONSTANT MaxLen = 1000
INVARIANT Inv_Restore
INVARIANT Inv_RejectedUntouched
INVARIANT Inv_NestConj
INVARIANT Inv_TopClean
INVARIANT Inv_ConstMeaning
CHECK_DEADLOCK FALSE
