SPECIFICATION TSpec
CONSTANT MaxDepth = 8
CONSTANT MaxLen = 1000
INVARIANT Inv_Restore
INVARIANT Inv_RejectedUntouched
INVARIANT Inv_NestConj
INVARIANT Inv_TopClean
CHECK_DEADLOCK FALSE
