------------------------------- MODULE PyRef -------------------------------
(***************************************************************************)
(* Reference semantics of Python integer arithmetic, as the properties     *)
(* appeal to it.  TLC's \div and % are floor division / mathematical       *)
(* modulo for a positive divisor, which is Python's definition; negative   *)
(* divisors are reduced to positive ones explicitly.                       *)
(***************************************************************************)
EXTENDS Integers, Sequences

Abs(x) == IF x < 0 THEN -x ELSE x

RECURSIVE Pow(_, _)
Pow(a, e) == IF e <= 0 THEN 1 ELSE a * Pow(a, e - 1)

\* overflow-safe magnitude test: is |a|^e <= cap ?  (TLC integers are 32 bit)
RECURSIVE PowMag(_, _, _)
PowMag(m, e, cap) == IF e <= 0 THEN 1
                     ELSE LET r == PowMag(m, e - 1, cap) IN IF r > cap THEN r ELSE IF m = 0 THEN 0 ELSE IF r > cap \div m THEN cap + 1 ELSE r * m
PowSmall(a, e) == e <= 64 /\ PowMag(Abs(a), e, 1048576) <= 1048576

\* Python floor division and modulo for any sign of the divisor (d # 0)
FloorDiv(a, d) == IF d > 0 THEN a \div d ELSE (-a) \div (-d)
PyMod(a, d)    == a - d * FloorDiv(a, d)

\* bitwise operations with Python's semantics on arbitrary integers (infinite two's complement):
\* floor division by 2 converges to 0 or -1, which are the base cases
RECURSIVE BitAnd(_, _)
BitAnd(a, b) == IF a = 0 \/ b = 0 THEN 0 ELSE IF a = -1 THEN b ELSE IF b = -1 THEN a
                ELSE (a % 2) * (b % 2) + 2 * BitAnd(a \div 2, b \div 2)
RECURSIVE BitOr(_, _)
BitOr(a, b) == IF a = 0 THEN b ELSE IF b = 0 THEN a ELSE IF a = -1 \/ b = -1 THEN -1
               ELSE (IF (a % 2) + (b % 2) > 0 THEN 1 ELSE 0) + 2 * BitOr(a \div 2, b \div 2)
RECURSIVE BitXor(_, _)
BitXor(a, b) == IF a = 0 THEN b ELSE IF b = 0 THEN a ELSE IF a = -1 THEN -b - 1 ELSE IF b = -1 THEN -a - 1
                ELSE (((a % 2) + (b % 2)) % 2) + 2 * BitXor(a \div 2, b \div 2)

\* number of bits of |x| (Python int.bit_length)
RECURSIVE BitLength(_)
BitLength(x) == IF x = 0 THEN 0 ELSE 1 + BitLength(Abs(x) \div 2)

B2I(b) == IF b THEN 1 ELSE 0

\* Is the expression defined on plain Python integers (Python itself would not raise)?
Defined(op, a, b) ==
    CASE op \in {"truediv", "floordiv", "mod", "divmod"} -> b # 0
      [] op = "pow"    -> b >= 0
      [] op \in {"lshift", "rshift"} -> b >= 0
      [] OTHER -> TRUE

\* Value of the binary expression on plain integers; for "truediv" the exact quotient (only
\* meaningful when b divides a); for "divmod" a pair.
Apply(op, a, b) ==
    CASE op = "add" -> a + b
      [] op = "sub" -> a - b
      [] op = "mul" -> a * b
      [] op = "truediv"  -> FloorDiv(a, b)
      [] op = "floordiv" -> FloorDiv(a, b)
      [] op = "mod"      -> PyMod(a, b)
      [] op = "pow"    -> Pow(a, b)
      [] op = "lshift" -> a * Pow(2, b)
      [] op = "rshift" -> a \div Pow(2, b)
      [] op = "and" -> BitAnd(a, b)
      [] op = "or"  -> BitOr(a, b)
      [] op = "xor" -> BitXor(a, b)
      [] op = "eq" -> B2I(a = b)
      [] op = "ne" -> B2I(a # b)
      [] op = "lt" -> B2I(a < b)
      [] op = "le" -> B2I(a <= b)
      [] op = "gt" -> B2I(a > b)
      [] op = "ge" -> B2I(a >= b)

Exact(op, a, b) == op = "truediv" => PyMod(a, b) = 0

ApplyUn(op, a) ==
    CASE op = "neg" -> -a
      [] op = "pos" -> a
      [] op = "abs" -> Abs(a)
      [] op = "invert" -> -a - 1

\* --------------------------------------------------------------------------
\* Assertion relations (C03).  n is the width that applies (explicit argument or bitlength).
Fits(x, n) == x >= 0 /\ x < Pow(2, n)

Rel(op, a, b, n) ==
    CASE op = "assert_eq" -> a = b
      [] op = "assert_ne" -> a # b
      [] op = "assert_lt" -> a < b
      [] op = "assert_le" -> a <= b
      [] op = "assert_gt" -> a > b
      [] op = "assert_ge" -> a >= b
      [] op = "assert_zero" -> a = 0
      [] op = "assert_nonzero" -> a # 0
      [] op = "assert_positive" -> Fits(a, n)
      [] op = "to_bits" -> Fits(a, n)
      [] op = "bool" -> a \in {0, 1}
      [] op = "index" -> a >= 0 /\ a < b
      [] op = "assert_range" -> TRUE   \* handled by RelRange

RelRange(x, lo, hi) == lo <= x /\ x < hi

\* The difference the range gadget has to decompose, for ordering assertions
Diff(op, a, b) ==
    CASE op = "assert_lt" -> b - a - 1
      [] op = "assert_le" -> b - a
      [] op = "assert_gt" -> a - b - 1
      [] op = "assert_ge" -> a - b
      [] OTHER -> 0

\* documented domain of an assertion: the comparison difference fits the width
InWindow(op, a, b, n) ==
    IF op \in {"assert_lt", "assert_le", "assert_gt", "assert_ge"} THEN Diff(op, a, b) < Pow(2, n) ELSE TRUE
=============================================================================
