SPECIFICATION Spec
INVARIANT Inv_Inert
INVARIANT Inv_InertComplete
INVARIANT Inv_Transparent
INVARIANT Inv_TransparentLength
CHECK_DEADLOCK FALSE
