----------------------------- MODULE TraceArray -----------------------------
(***************************************************************************)
(* Binds ArrayMem.tla to pysnark.array.Array: each recorded secret-index   *)
(* access is consumed by the ArrayMem action with the logged arguments;    *)
(* the outcome, the value(s) returned and the contents of ALL cells        *)
(* afterwards, as reported by the code, must be the specification's.       *)
(***************************************************************************)
EXTENDS ArrayMem

CONSTANT TraceFile
Data   == JsonDeserialize(TraceFile)
Traces == Data.traces

VARIABLES tid, l
tvars == <<vars, tid, l>>

Tr  == Traces[tid]
Evs == Tr.events
E   == Evs[l + 1]
Last == Evs[l]

TInit == /\ tid \in 1..Len(Traces)
         /\ dim = Traces[tid].dim /\ arr = Traces[tid].arr0 /\ arr0 = arr /\ brr = BInit
         /\ hist = <<>> /\ last = [out |-> "ok", ret |-> <<>>]
         /\ l = 0

Consume == l < Len(Evs) /\ l' = l + 1 /\ tid' = tid

TNext == Consume /\
    \/ (E.a = "get"     /\ Get1(E.i, E.ik, E.re))
    \/ (E.a = "set"     /\ Set1(E.i, E.ik, E.v, E.re, E.cnd))
    \/ (E.a = "getb"    /\ GetB(E.i, E.ik, E.re))
    \/ (E.a = "setb"    /\ SetB(E.i, E.ik, E.v, E.re))
    \/ (E.a = "get2"    /\ Get2(E.i, E.ik, E.j, E.jk, E.re))
    \/ (E.a = "getrow"  /\ GetRow(E.i, E.ik, E.re))
    \/ (E.a = "set2"    /\ Set2(E.i, E.ik, E.j, E.jk, E.v, E.re, E.cnd))
    \/ (E.a = "copyrow" /\ CopyRow(E.i, E.j, E.jk))
    \/ (E.a = "copyrow2" /\ CopyRowBoth(E.j, E.jk))

TSpec == TInit /\ [][TNext]_tvars

\* the trace specification is total on recorded histories: no event is left unexamined because its action is disabled
Inv_Total  == l < Len(Evs) => /\ E.a \in {"get", "set", "getb", "setb", "get2", "getrow", "set2", "copyrow", "copyrow2"}
                              /\ ReOk(E.re, E.i, E.ik, E.j, E.jk)
                              /\ (E.a \in {"get", "set", "getb", "setb"} <=> dim = 1)
                              /\ (E.a = "copyrow" => E.i \in 0..(Len(arr) - 1))
\* an index outside the bounds raises, an index inside does not
Inv_Bounds == l >= 1 => Last.out = last.out
\* a read returns the element at the index
Inv_Read   == (l >= 1 /\ last.out = "ok" /\ Last.out = "ok" /\ Last.a \in {"get", "getb", "get2", "getrow"}) => Last.ret = last.ret
\* after every access every cell holds what the list semantics says: a write replaced exactly one element
Inv_Cells  == l >= 1 => Last.cells = Cells
=============================================================================
