------------------------------ MODULE TraceRef ------------------------------
(***************************************************************************)
(* C05: traced integer / boolean arithmetic agrees with Python semantics   *)
(* (PyRef), or raises; inside the documented domain it does not raise.     *)
(* Every recorded public call of a trace is one step; the invariants judge *)
(* the call just consumed from its logged operand values.                  *)
(***************************************************************************)
EXTENDS Integers, Sequences, TLC, Json, PyRef, KnownDeviations

CONSTANT TraceFile
Data   == JsonDeserialize(TraceFile)
Traces == Data.traces
Active == Data.active

VARIABLES tid, l
vars == <<tid, l>>

Tr  == Traces[tid]
Evs == Tr.events
BL  == Tr.bitlength
P   == Tr.P

Init == tid \in 1..Len(Traces) /\ l = 0
Next == l < Len(Evs) /\ l' = l + 1 /\ tid' = tid
Spec == Init /\ [][Next]_vars

E == Evs[l]

IntKinds == {"int", "bool", "pyint", "pybool"}
Sec(x)   == x.k \in {"int", "bool"}

\* the call has scalar integer/boolean operands whose values were logged exactly
Scalar(args) == \A i \in DOMAIN args : Len(args[i]) = 1 /\ args[i][1].k \in IntKinds /\ ~args[i][1].w
A1 == E.args[1][1]
A2 == E.args[2][1]
A3 == E.args[3][1]

\* values are meaningful only outside false guards and ignore_errors mode
Judged == l >= 1 /\ ~Tr.ign /\ ~E.gfalse

FitsBL(x) == -(2 ^ (BL - 1)) <= x /\ x < 2 ^ (BL - 1)
OperandsFit(args) == \A i \in DOMAIN args : (Sec(args[i][1]) => FitsBL(args[i][1].v))

IsBoolOp == A1.k = "bool" \/ (Len(E.args) >= 2 /\ A2.k = "bool" /\ A1.k \in {"pyint", "pybool"})

---------------------------------------------------------------------------
\* reference value of the call, as a sequence of integers
LogicOps == {"and", "or", "xor"}
RefBin(op, a, b) ==
    IF op = "divmod" THEN <<FloorDiv(a, b), PyMod(a, b)>> ELSE <<Apply(op, a, b)>>

\* boolean-typed left operand: & | ^ are logical, ** is b^e on 0/1, the rest arithmetic on 0/1
RefBoolBin(op, a, b) ==
    CASE op \in LogicOps -> <<Apply(op, a, IF b # 0 THEN 1 ELSE 0)>>
      [] op = "pow" -> <<IF b = 0 THEN 1 ELSE a>>
      [] OTHER -> RefBin(op, a, b)

BinDefined(op, a, b) == Defined(op, a, b) /\ Exact(op, a, b)

\* documented domain of a binary operator on integers (operands already known to fit)
SecretCount == Len(E.args) = 2 /\ Sec(A2)
BinInDomain(op, a, b) ==
    CASE op \in {"add", "sub", "mul", "eq", "ne", "lt", "le", "gt", "ge"} -> TRUE
      [] op = "truediv" -> b # 0 /\ PyMod(a, b) = 0
      [] op \in {"floordiv", "mod", "divmod"} -> b # 0
      [] op = "pow" -> IF SecretCount THEN b >= 0 /\ b < 2 ^ BL ELSE b >= 0
      [] op = "lshift" -> IF SecretCount THEN b >= 0 /\ b < 2 ^ BL ELSE b >= 0
      [] op = "rshift" -> a >= 0 /\ b >= 0 /\ (SecretCount => b < BL - 1)     \* i.e. 2^b < 2^(BL-1), without computing 2^31
      [] op \in LogicOps -> a >= 0 /\ b >= 0
      [] OTHER -> FALSE

ResVals == [i \in DOMAIN E.res |-> E.res[i].v]
ResExact == \A i \in DOMAIN E.res : ~E.res[i].w /\ E.res[i].k \in IntKinds

---------------------------------------------------------------------------
RefOK ==
    CASE E.op = "bin" /\ Len(E.args) = 2 /\ Scalar(E.args) ->
            IF A1.k = "bool" /\ E.name \in (LogicOps \cup {"pow"})
            THEN (A2.k \in {"bool", "pybool"} \/ A2.v \in {0, 1} \/ E.name = "pow") => ResVals = RefBoolBin(E.name, A1.v, A2.v)
            ELSE IF A2.k = "bool" /\ A1.k \in {"pyint", "pybool", "int"} /\ E.name \in LogicOps
            THEN (A1.v \in {0, 1}) => ResVals = RefBoolBin(E.name, A2.v, A1.v)
            ELSE BinDefined(E.name, A1.v, A2.v) /\ ResVals = RefBin(E.name, A1.v, A2.v)
      [] E.op = "un" /\ Len(E.args) = 1 /\ Scalar(E.args) ->
            IF A1.k = "bool" /\ E.name = "invert" THEN ResVals = <<1 - A1.v>>
            ELSE ResVals = <<ApplyUn(E.name, A1.v)>>
      [] E.op = "meth" /\ E.name = "check_zero" /\ Scalar(E.args) -> ResVals = <<B2I(A1.v = 0)>>
      [] E.op = "meth" /\ E.name = "check_nonzero" /\ Scalar(E.args) -> ResVals = <<B2I(A1.v # 0)>>
      [] E.op = "meth" /\ E.name = "check_positive" /\ Len(E.args) = 1 /\ Scalar(E.args) -> ResVals = <<B2I(A1.v >= 0)>>
      [] E.op = "meth" /\ E.name = "if_else" /\ Len(E.args) = 3 /\ Scalar(E.args) -> ResVals = <<IF A1.v # 0 THEN A2.v ELSE A3.v>>
      [] E.op = "ite" /\ Len(E.args) = 3 /\ Scalar(E.args) -> ResVals = <<IF A1.v # 0 THEN A2.v ELSE A3.v>>
      [] OTHER -> TRUE

\* the reference value is computable in TLC's 32-bit integers
Computable ==
    (E.op = "bin" /\ Len(E.args) = 2 /\ Scalar(E.args)) =>
        CASE E.name = "pow" -> A2.v < 0 \/ PowSmall(A1.v, A2.v)
          [] E.name \in {"lshift", "rshift"} -> A2.v < 0 \/ (PowSmall(2, A2.v) /\ Abs(A1.v) < 1024)
          [] OTHER -> Abs(A1.v) < 32768 /\ Abs(A2.v) < 32768

Inv_Ref ==
    (Judged /\ E.out = "ok" /\ E.depth = Tr.basedepth /\ ResExact /\ Computable) =>
        (RefOK \/ KnownRef(Active, E, BL, P))

---------------------------------------------------------------------------
InDomain ==
    CASE E.op = "bin" /\ Len(E.args) = 2 /\ Scalar(E.args) /\ A1.k \in {"int", "pyint"} /\ A2.k \in {"int", "pyint"} ->
            OperandsFit(E.args) /\ FitsBL(A1.v) /\ FitsBL(A2.v) /\ BinInDomain(E.name, A1.v, A2.v)
      [] E.op = "bin" /\ Len(E.args) = 2 /\ Scalar(E.args) /\ A1.k = "bool" /\ A2.k \in {"bool", "pybool"} ->
            E.name \in (LogicOps \cup {"add", "sub", "mul", "eq", "ne", "lt", "le", "gt", "ge"})
      [] E.op = "un" /\ Len(E.args) = 1 /\ Scalar(E.args) /\ A1.k = "int" ->
            FitsBL(A1.v) /\ (E.name = "invert" => A1.v >= 0) /\ (E.name = "abs" => -A1.v < 2 ^ (BL - 1))
      [] E.op = "un" /\ Len(E.args) = 1 /\ Scalar(E.args) /\ A1.k = "bool" -> E.name \in {"invert", "neg", "pos"}
      \* (the receiver must be a traced integer: a plain Python int has no such method -- a type error of the program, not of the values)
      [] E.op = "meth" /\ E.name \in {"check_zero", "check_nonzero", "check_positive"} /\ Len(E.args) = 1 /\ Scalar(E.args) -> A1.k = "int" /\ FitsBL(A1.v)
      [] E.op = "ite" /\ Len(E.args) = 3 /\ Scalar(E.args) -> A1.k = "bool"
      [] OTHER -> FALSE

Inv_NoSpuriousRaise ==
    (Judged /\ E.depth = Tr.basedepth /\ InDomain) => (E.out = "ok" \/ KnownRaise(Active, E, BL, P))
=============================================================================
