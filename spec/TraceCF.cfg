SPECIFICATION Spec
INVARIANT Inv_CF
INVARIANT Inv_NoRaise
INVARIANT Inv_StopChecked
CHECK_DEADLOCK FALSE
