SPECIFICATION Spec
INVARIANT Inv_Runs
INVARIANT Inv_Native
INVARIANT Inv_NativeAnyway
CHECK_DEADLOCK FALSE
