--------------------------------- MODULE Qap ---------------------------------
(***************************************************************************)
(* C12: the text files written for qaptools are consistent and split       *)
(* faithfully.  One initial state per run (small-prime instantiation:      *)
(* options.vc_p rebound before the backend is imported; TLC does all       *)
(* reductions itself).  Parsed artefacts:                                  *)
(*   eqs     the complete equation file (as flushed at process exit)       *)
(*   wires / io   name -> integer                                          *)
(*   fnfiles the per-function equation files written by the proving step   *)
(*   calls, digests, messages reported by the backend                      *)
(* A name is [ctx, loc, full]; a term [c, n]; an equation [a, b, c] : a*b=c *)
(***************************************************************************)
EXTENDS Integers, Sequences, FiniteSets, TLC, Json, KnownDeviations

CONSTANT TraceFile
Data   == JsonDeserialize(TraceFile)
Cases  == Data.cases
Active == Data.active

VARIABLE tid
Init == tid \in 1..Len(Cases)
Next == UNCHANGED tid
Spec == Init /\ [][Next]_tid
C == Cases[tid]
P == C.P

Items(t) == {i \in DOMAIN C.eqs : C.eqs[i].t = t}
Eqs == Items("eq")

Defined(n) == n.loc = "one" \/ n.full \in DOMAIN C.wires \/ n.full \in DOMAIN C.io
Val(n) == IF n.loc = "one" THEN 1 ELSE IF n.full \in DOMAIN C.wires THEN C.wires[n.full] ELSE C.io[n.full]

RECURSIVE EvalLC(_, _)
EvalLC(lc, i) == IF i > Len(lc) THEN 0 ELSE ((lc[i].c % P) * (Val(lc[i].n) % P) + EvalLC(lc, i + 1)) % P
Names(e) == {e.a[i].n : i \in DOMAIN e.a} \cup {e.b[i].n : i \in DOMAIN e.b} \cup {e.c[i].n : i \in DOMAIN e.c}

\* ---- every equation holds modulo p on the wire and I/O values (ctx/one is the constant 1)
Inv_EqSat ==
    ~C.raised =>
        \A i \in Eqs : LET e == C.eqs[i] IN
            /\ \A n \in Names(e) : Defined(n)
            /\ (EvalLC(e.a, 1) * EvalLC(e.b, 1)) % P = EvalLC(e.c, 1)

\* ---- each public value appears in the I/O file, tied to its wire by an equality
IsLink(e, o) == e.a = <<>> /\ e.b = <<>> /\ Len(e.c) = 2 /\ e.c[2].n.full = o /\ e.c[1].c = 1 /\ e.c[2].c = -1
Inv_PubLinked ==
    /\ Cardinality(DOMAIN C.io) = C.npub
    /\ \A o \in DOMAIN C.io : \E i \in Eqs : IsLink(C.eqs[i], o) /\ (Val(C.eqs[i].c[1].n) - C.io[o]) % P = 0

\* ---- every equation lives in one function context
CtxOf(e) == LET N == Names(e) IN IF N = {} THEN "" ELSE (CHOOSE n \in N : TRUE).ctx
OneCtx(e) == \A n, m \in Names(e) : n.ctx = m.ctx
\* an equation that mixes two contexts (a sub-circuit body using a wire of its caller that was not passed as an argument) is
\* allowed only if the proving step REPORTS it ("Inconsistent contexts") and does not complete the split
Inv_OneContext == \A i \in Eqs : OneCtx(C.eqs[i]) \/ KnownCtxMix(Active, C.eqs[i]) \/ (C.ctxmix_reported /\ ~C.proved_split)
\* ---- whatever per-function file exists names only context-free wires (nothing of another context leaks into a function's circuit)
FileNames(f) == UNION {Names(C.fnfiles[f][i]) : i \in {j \in DOMAIN C.fnfiles[f] : C.fnfiles[f][j].t = "eq"}}
Inv_FnFilesLocal == \A f \in DOMAIN C.fnfiles : \A n \in FileNames(f) : n.ctx = ""

\* ---- splitting: the per-function file of f holds exactly the normalised equations and blocks of a call of f
NormLC(lc) == [i \in DOMAIN lc |-> <<lc[i].c % P, lc[i].n.loc>>]
Norm(e) == [a |-> NormLC(e.a), b |-> NormLC(e.b), c |-> NormLC(e.c)]
EqsOf(ctx) == {Norm(C.eqs[i]) : i \in {j \in Eqs : CtxOf(C.eqs[j]) = ctx}}
BlocksOf(ctx) == {C.blocks[i].norm : i \in {j \in DOMAIN C.blocks : C.blocks[j].ctx = ctx}}
FileEqs(f) == {Norm(C.fnfiles[f][i]) : i \in {j \in DOMAIN C.fnfiles[f] : C.fnfiles[f][j].t = "eq"}}
FileBlocks(f) == {C.fnfiles[f][i].raw : i \in {j \in DOMAIN C.fnfiles[f] : C.fnfiles[f][j].t = "ioblock"}}

Calls == DOMAIN C.fns
FirstCall(k) == \A j \in Calls : (j < k) => C.fns[j].fname # C.fns[k].fname
SplitRan == C.proved_split           \* the backend's own splitting step completed

Inv_SplitComplete ==
    (SplitRan /\ \A i \in Eqs : OneCtx(C.eqs[i])) =>
        \A k \in Calls : FirstCall(k) =>
            /\ C.fns[k].fname \in DOMAIN C.fnfiles
            /\ FileEqs(C.fns[k].fname) = EqsOf(C.fns[k].call)
            /\ FileBlocks(C.fns[k].fname) = BlocksOf(C.fns[k].call)

\* ---- all calls of one function name are the same circuit with the same signature, or the difference is reported
\* equations are compared as MULTISETS (the backend compares the sorted lists of lines)
Count(ctx, e) == Cardinality({i \in Eqs : CtxOf(C.eqs[i]) = ctx /\ Norm(C.eqs[i]) = e})
SameCircuit(j, k) == /\ EqsOf(C.fns[j].call) = EqsOf(C.fns[k].call)
                     /\ \A e \in EqsOf(C.fns[j].call) : Count(C.fns[j].call, e) = Count(C.fns[k].call, e)
                     /\ BlocksOf(C.fns[j].call) = BlocksOf(C.fns[k].call)
DigestOf(call) == LET D == {i \in DOMAIN C.digests : C.digests[i].id = call} IN IF D = {} THEN "" ELSE C.digests[CHOOSE i \in D : TRUE].digest
\* some OTHER pair of calls is inconsistent: then the split legitimately stops with that report
AnyIncons == \E j, k \in Calls : j < k /\ C.fns[j].fname = C.fns[k].fname /\ ~SameCircuit(j, k)
Inv_SameFn ==
    (\A i \in Eqs : OneCtx(C.eqs[i])) =>
        \A j, k \in Calls : (j < k /\ C.fns[j].fname = C.fns[k].fname) =>
            IF SameCircuit(j, k)
            THEN \/ (SplitRan /\ DigestOf(C.fns[j].call) = DigestOf(C.fns[k].call) /\ DigestOf(C.fns[j].call) # "")
                 \* the split stops at the FIRST inconsistent call: later calls have no digest then
                 \/ (~SplitRan /\ AnyIncons /\ C.inconsistency_reported
                        /\ ((DigestOf(C.fns[j].call) # "" /\ DigestOf(C.fns[k].call) # "") => DigestOf(C.fns[j].call) = DigestOf(C.fns[k].call)))
            ELSE (C.inconsistency_reported /\ (DigestOf(C.fns[k].call) = "" \/ DigestOf(C.fns[j].call) # DigestOf(C.fns[k].call)))

\* ---- every sub-circuit call is glued to its caller by paired blocks listing all arguments and results, equal values
Block(ctx, bn) == LET B == {i \in DOMAIN C.blocks : C.blocks[i].ctx = ctx /\ C.blocks[i].bn = bn} IN IF B = {} THEN [wires |-> <<>>, ok |-> FALSE] ELSE [wires |-> C.blocks[CHOOSE i \in B : TRUE].wires, ok |-> TRUE]
WireVal(full) == IF full \in DOMAIN C.wires THEN C.wires[full] ELSE 0
Glues == Items("glue")
Inv_Glue ==
    /\ Cardinality(Glues) = Len(C.calls)                      \* one glue per sub-circuit call
    /\ \A g \in Glues : LET G == C.eqs[g] B1 == Block(G.c1, G.b1) B2 == Block(G.c2, G.b2) IN
        /\ B1.ok /\ B2.ok /\ Len(B1.wires) = Len(B2.wires)
        /\ \A i \in DOMAIN B1.wires : (WireVal(B1.wires[i]) - WireVal(B2.wires[i])) % P = 0
        /\ C.rnd1[G.c1][G.b1] = C.rnd1[G.c2][G.b2]
        /\ \E k \in DOMAIN C.calls : C.calls[k].ctx = G.c2 /\ Len(B2.wires) = C.calls[k].nargs + C.calls[k].nres
=============================================================================
