------------------------------ MODULE QapConf ------------------------------
(***************************************************************************)
(* Conformance of pysnark.qaptools.backend with the mechanism spec         *)
(* QapCtx.tla: for every closed history generated from QapCtx.tla and      *)
(* replayed on the real backend, the call ids, the block declarations      *)
(* (context, name, number of wires), the glue records and the number of    *)
(* equations found in the files must be the model's (MODEL-DRIFT           *)
(* otherwise; the contract is judged by Qap.tla on the same files).        *)
(***************************************************************************)
EXTENDS Integers, Sequences, TLC, Json

CONSTANT TraceFile
Data  == JsonDeserialize(TraceFile)
Pairs == Data.pairs

VARIABLE tid
Init == tid \in 1..Len(Pairs)
Next == UNCHANGED tid
Spec == Init /\ [][Next]_tid
M == Pairs[tid].model
I == Pairs[tid].impl

Inv_Calls  == [k \in DOMAIN M.calls |-> <<M.calls[k].fname, M.calls[k].id>>] = I.calls
Inv_Blocks == [k \in DOMAIN M.blocks |-> <<M.blocks[k].ctx, M.blocks[k].bn, M.blocks[k].n>>] = I.blocks
Inv_Glues  == [k \in DOMAIN M.glues |-> <<M.glues[k].c1, M.glues[k].b1, M.glues[k].c2, M.glues[k].b2>>] = I.glues
Inv_Eqs    == M.neq = I.neq
=============================================================================
