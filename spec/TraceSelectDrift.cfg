SPECIFICATION TSpec
CONSTANT MaxPre = 2
INVARIANT Inv_Predicted
CHECK_DEADLOCK FALSE
