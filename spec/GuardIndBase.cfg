SPECIFICATION BaseSpec
CONSTANT MaxDepth = 3
CONSTANT RaiseKinds = {0, 1}
CONSTANT MaxLen = 1
INVARIANT IndInv
CHECK_DEADLOCK FALSE
