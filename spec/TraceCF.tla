------------------------------ MODULE TraceCF ------------------------------
(***************************************************************************)
(* C09: a program written with the oblivious block constructs ends with    *)
(* the variable values of the same program under native control flow.      *)
(* One initial state per recorded run; TLC interprets the program with     *)
(* NativeCF on the recorded inputs and compares the final variables.       *)
(***************************************************************************)
EXTENDS Integers, Sequences, TLC, Json, NativeCF, KnownDeviations

CONSTANT TraceFile
Data   == JsonDeserialize(TraceFile)
Runs   == Data.runs
Active == Data.active

VARIABLES tid
vars == <<tid>>

R == Runs[tid]
Vars == {"x", "y", "z", "f", "i", "a0", "a1", "a2", "m00", "m01", "m10", "m11"}
Env0 == [n \in Vars |-> IF n \in DOMAIN R.inputs THEN R.inputs[n] ELSE 0]

Init == tid \in 1..Len(Runs)
Next == UNCHANGED tid
Spec == Init /\ [][Next]_vars

Native == Run(R.prog, Env0)

\* the oblivious run ends with the native final values of every tracked variable
Inv_CF ==
    R.out = "ok" => \A n \in DOMAIN R.final : R.final[n] = Native[n]

\* inside the domain (bounds within the public maximum) the oblivious run does not raise
Inv_NoRaise ==
    ~StopExceeds(R.prog, 1, Env0) => (R.out = "ok" \/ KnownCFRaise(Active, R))

\* a checked loop whose secret bound exceeds the public maximum is refused
Inv_StopChecked ==
    StopExceeds(R.prog, 1, Env0) => R.out = "raise"
=============================================================================
