SPECIFICATION Spec
INVARIANT Inv_Calls
INVARIANT Inv_Blocks
INVARIANT Inv_Glues
INVARIANT Inv_Eqs
CHECK_DEADLOCK FALSE
