------------------------------- MODULE Guard -------------------------------
(***************************************************************************)
(* Mechanism + contract specification of pysnark's guard machinery         *)
(* (runtime.add_guard / restore_guard / guarded, and the way exceptions    *)
(* unwind guarded regions).                                                *)
(*                                                                         *)
(* State (the "guard triple" of the implementation):                       *)
(*   gval : "none" or the 0/1 value carried by the active guard wire       *)
(*   ign  : the _ignore_errors flag                                        *)
(*   one  : "const" if LinComb.ONE is the constant one, "guard" if it has   *)
(*          been rebound to the active guard                               *)
(* plus the stack of open frames.  A frame is a guarded region (holding    *)
(* the triple saved by add_guard, i.e. the implementation's `bak`) or a    *)
(* user try/except block.  An exception unwinds frame by frame: every      *)
(* guarded region it leaves runs restore_guard in its except clause.       *)
(*                                                                         *)
(* Ghost state for the contract: `entry` = the triple that was current     *)
(* when each open region was entered, `conds` = conditions of the open     *)
(* guarded regions, `userIgn` = what the user last set.                    *)
(***************************************************************************)
EXTENDS Integers, Sequences, TLC, Json

CONSTANTS MaxDepth,     \* bound on open frames
          MaxLen,       \* bound on history length (model checking only)
          RaiseKinds    \* which kinds of exception the model raises (subset of 0..3)

VARIABLES gval, ign, one, frames, unwinding, userIgn, hist

vars == <<gval, ign, one, frames, unwinding, userIgn, hist>>

Triple == [g |-> gval, i |-> ign, o |-> one]

None == -1   \* "no guard" (an integer, so that it compares with 0/1 in TLC)

Init == /\ gval = None /\ ign = FALSE /\ one = "const"
        /\ frames = <<>> /\ unwinding = FALSE /\ userIgn = FALSE /\ hist = <<>>

Top == frames[Len(frames)]
Pop == SubSeq(frames, 1, Len(frames) - 1)

\* frames that contribute a secret condition to the guard (constant-true regions save/restore but add nothing)
GuardFrames == {i \in DOMAIN frames : frames[i].type = "guard" /\ "const" \notin DOMAIN frames[i]}

Log(a) == hist' = Append(hist, a)

---------------------------------------------------------------------------
(* add_guard(cond) with a secret condition of value c in {0,1}:            *)
(* guard := cond if no guard else guard & cond; ign := ign or c = 0;       *)
(* ONE := guard.  The previous triple is saved in the frame.               *)
Enter(c) ==
    /\ ~unwinding /\ Len(frames) < MaxDepth
    /\ frames' = Append(frames, [type |-> "guard", cond |-> c, saved |-> Triple])
    /\ gval' = IF gval = None THEN c ELSE gval * c
    /\ ign' = (ign \/ c = 0)
    /\ one' = "guard"
    /\ UNCHANGED <<unwinding, userIgn>>
    /\ Log([a |-> "enter", c |-> c])

(* add_guard(1) with the plain integer 1 ("always true"): nothing changes, but the triple is still saved and    *)
(* reinstated at the end of the region, so whatever the body did to it (e.g. the user switching error checks)  *)
(* is undone.                                                                                                 *)
EnterConst ==
    /\ ~unwinding /\ Len(frames) < MaxDepth
    /\ frames' = Append(frames, [type |-> "guard", cond |-> 1, saved |-> Triple, const |-> TRUE])
    /\ UNCHANGED <<gval, ign, one, unwinding, userIgn>>
    /\ Log([a |-> "enter_const", c |-> 1])

(* the user calls ignore_errors(b) inside a region: the flag changes until the region ends *)
InRegion == \E i \in DOMAIN frames : frames[i].type = "guard"
SetIgnInside(b) ==
    /\ ~unwinding /\ InRegion /\ ign # b
    /\ ign' = b
    /\ UNCHANGED <<gval, one, frames, unwinding, userIgn>>
    /\ Log([a |-> "setign_in", c |-> IF b THEN 1 ELSE 0])

(* add_guard refuses a condition that is not 0/1 (no error suppression     *)
(* active): it raises before anything is changed; the exception then       *)
(* propagates like any other.                                              *)
EnterRejected ==
    /\ ~unwinding /\ ~ign /\ Len(frames) < MaxDepth
    /\ unwinding' = TRUE
    /\ UNCHANGED <<gval, ign, one, frames, userIgn>>
    /\ Log([a |-> "enter_rejected", c |-> 2])

(* the guarded function returns: restore_guard(bak) *)
Leave ==
    /\ ~unwinding /\ frames # <<>> /\ Top.type = "guard"
    /\ gval' = Top.saved.g /\ ign' = Top.saved.i /\ one' = Top.saved.o
    /\ frames' = Pop
    /\ UNCHANGED <<unwinding, userIgn>>
    /\ Log([a |-> "leave", c |-> 0])

(* some statement raises: k = 0 an ordinary exception (failed assertion, user exception, ...),            *)
(* k = 1 / 2 / 3 a KeyboardInterrupt / SystemExit / GeneratorExit, which are not subclasses of Exception.   *)
(* The kind makes no difference to the guard machinery: every exception unwinds and restores.             *)
Raise(k) ==
    /\ ~unwinding
    /\ unwinding' = TRUE
    /\ UNCHANGED <<gval, ign, one, frames, userIgn>>
    /\ Log([a |-> "raise", c |-> k])

(* the exception leaves a guarded region: except clause restores, re-raises *)
Unwind ==
    /\ unwinding /\ frames # <<>> /\ Top.type = "guard"
    /\ gval' = Top.saved.g /\ ign' = Top.saved.i /\ one' = Top.saved.o
    /\ frames' = Pop
    /\ UNCHANGED <<unwinding, userIgn, hist>>

(* the exception reaches a user try/except and is swallowed *)
Catch ==
    /\ unwinding /\ frames # <<>> /\ Top.type = "try"
    /\ frames' = Pop /\ unwinding' = FALSE
    /\ UNCHANGED <<gval, ign, one, userIgn, hist>>

(* the exception reaches the top level of the script (logged, run goes on) *)
Escape ==
    /\ unwinding /\ frames = <<>>
    /\ unwinding' = FALSE
    /\ UNCHANGED <<gval, ign, one, frames, userIgn, hist>>

TryEnter ==
    /\ ~unwinding /\ Len(frames) < MaxDepth
    /\ frames' = Append(frames, [type |-> "try", cond |-> 1, saved |-> Triple])
    /\ UNCHANGED <<gval, ign, one, unwinding, userIgn>>
    /\ Log([a |-> "try", c |-> 0])

TryLeave ==
    /\ ~unwinding /\ frames # <<>> /\ Top.type = "try"
    /\ frames' = Pop
    /\ UNCHANGED <<gval, ign, one, unwinding, userIgn>>
    /\ Log([a |-> "endtry", c |-> 0])

(* any traced operation that completes: the triple is not touched *)
Call ==
    /\ ~unwinding
    /\ UNCHANGED <<gval, ign, one, frames, unwinding, userIgn>>
    /\ Log([a |-> "call", c |-> 0])

(* the user switches error checking at top level *)
SetIgn(b) ==
    /\ ~unwinding /\ ~(\E i \in DOMAIN frames : frames[i].type = "guard") /\ userIgn # b
    /\ ign' = b /\ userIgn' = b
    /\ UNCHANGED <<gval, one, frames, unwinding>>
    /\ Log([a |-> "setign", c |-> IF b THEN 1 ELSE 0])

Step ==
    \/ \E c \in {0, 1} : Enter(c)
    \/ EnterConst \/ (\E b \in BOOLEAN : SetIgnInside(b))
    \/ EnterRejected \/ Leave \/ (\E k \in RaiseKinds : Raise(k)) \/ Unwind \/ Catch \/ Escape
    \/ TryEnter \/ TryLeave \/ Call
    \/ \E b \in BOOLEAN : SetIgn(b)

Next == Len(hist) < MaxLen /\ Step
Spec == Init /\ [][Next]_vars

---------------------------------------------------------------------------
(* Contract (C08).                                                         *)
RECURSIVE ProdConds(_)
ProdConds(i) == IF i = 0 THEN 1
                ELSE (IF frames[i].type = "guard" THEN frames[i].cond ELSE 1) * ProdConds(i - 1)

\* nesting is a conjunction of all enclosing conditions
NestConj ==
    gval = IF GuardFrames = {} THEN None ELSE ProdConds(Len(frames))

\* error suppression = user's choice or some enclosing condition false
ToggledInside == \E k \in DOMAIN hist : hist[k].a = "setign_in"
IgnConj ==
    ~ToggledInside => ign = (userIgn \/ \E i \in GuardFrames : frames[i].cond = 0)

\* constants are scaled by the guard exactly inside guarded regions
OneBound == (one = "guard") <=> (GuardFrames # {})

\* the triple saved by the innermost open region is the state that was current at its entry,
\* so restoring it on Leave / Unwind re-establishes "exactly what it was before"
RestoreOnEnd ==
    [][(frames # <<>> /\ Len(frames') = Len(frames) - 1 /\ Top.type = "guard")
           => (gval' = Top.saved.g /\ ign' = Top.saved.i /\ one' = Top.saved.o)]_vars

\* when no region is open the triple is the initial one, modulo the user's ignore setting
TopLevelClean ==
    (frames = <<>> /\ ~unwinding) => (gval = None /\ one = "const" /\ ign = userIgn)

\* generator: print every complete history (all regions closed) once, as JSON, for replay into the code
EmitHist ==
    (frames = <<>> /\ ~unwinding /\ hist # <<>> /\ hist[Len(hist)].a # "call" /\ hist[Len(hist)].a # "setign")
        => PrintT(<<"BEH", ToJson(hist)>>)

TypeOK ==
    /\ gval \in {None, 0, 1} /\ ign \in BOOLEAN /\ one \in {"const", "guard"}
    /\ unwinding \in BOOLEAN /\ Len(frames) <= MaxDepth
=============================================================================
