------------------------------ MODULE NativeCF ------------------------------
(***************************************************************************)
(* Native Python control flow for a tiny structured language: assignments, *)
(* if/elif/else, `for i in range(min(stop, max))` with break, and          *)
(* `while cond` with a public iteration bound and break.  This is the      *)
(* reference C09 compares pysnark's oblivious constructs against.          *)
(*                                                                         *)
(* A state is [env |-> function from variable names to integers,           *)
(*             brk |-> BOOLEAN (a break was executed in the current loop)]. *)
(***************************************************************************)
EXTENDS Integers, Sequences

RECURSIVE EvalE(_, _)
EvalE(e, env) ==
    CASE e.e = "var"   -> env[e.n]
      [] e.e = "const" -> e.v
      [] e.e = "add"   -> EvalE(e.l, env) + EvalE(e.r, env)
      [] e.e = "sub"   -> EvalE(e.l, env) - EvalE(e.r, env)
      [] e.e = "mul"   -> EvalE(e.l, env) * EvalE(e.r, env)
      [] e.e = "aget"  -> env[e.cell]                                \* a[i] with a public index: the cell is a variable of its own
      [] e.e = "div"   -> EvalE(e.l, env) \div EvalE(e.r, env)      \* exact division (programs divide only when it is exact)

EvalC(c, env) ==
    CASE c.c = "var" -> env[c.n] # 0
      [] c.c = "lt"  -> EvalE(c.l, env) <  EvalE(c.r, env)
      [] c.c = "le"  -> EvalE(c.l, env) <= EvalE(c.r, env)
      [] c.c = "gt"  -> EvalE(c.l, env) >  EvalE(c.r, env)
      [] c.c = "ge"  -> EvalE(c.l, env) >= EvalE(c.r, env)
      [] c.c = "eq"  -> EvalE(c.l, env) =  EvalE(c.r, env)
      [] c.c = "ne"  -> EvalE(c.l, env) #  EvalE(c.r, env)

Min(a, b) == IF a < b THEN a ELSE b

RECURSIVE ExecSeq(_, _, _), ExecStmt(_, _), ExecArms(_, _, _), ForLoop(_, _, _, _), WhileLoop(_, _, _)

ExecSeq(ss, i, st) ==
    IF i > Len(ss) \/ st.brk THEN st ELSE ExecSeq(ss, i + 1, ExecStmt(ss[i], st))

ExecArms(s, k, st) ==
    IF k > Len(s.arms)
    THEN (IF s.haselse THEN ExecSeq(s.els, 1, st) ELSE st)
    ELSE IF EvalC(s.arms[k].c, st.env) THEN ExecSeq(s.arms[k].body, 1, st)
         ELSE ExecArms(s, k + 1, st)

ForLoop(s, k, n, st) ==
    IF k >= n \/ st.brk THEN st
    ELSE ForLoop(s, k + 1, n, ExecSeq(s.body, 1, [st EXCEPT !.env = [st.env EXCEPT ![s.i] = k]]))

WhileLoop(s, k, st) ==
    IF k >= s.max \/ st.brk \/ ~EvalC(s.c, st.env) THEN st
    ELSE WhileLoop(s, k + 1, ExecSeq(s.body, 1, st))

ExecStmt(s, st) ==
    CASE s.s = "assign"  -> [st EXCEPT !.env = [st.env EXCEPT ![s.n] = EvalE(s.e, st.env)]]
      \* a[i] = e : public index -> the cell named s.cell; secret index (a variable) -> the cell s.cells[value + 1]
      [] s.s = "aset"    -> LET c == IF s.secret THEN s.cells[EvalE(s.i, st.env) + 1] ELSE s.cell IN
                            [st EXCEPT !.env = [st.env EXCEPT ![c] = EvalE(s.e, st.env)]]
      [] s.s = "if"      -> ExecArms(s, 1, st)
      [] s.s = "breakif" -> IF EvalC(s.c, st.env) THEN [st EXCEPT !.brk = TRUE] ELSE st
      [] s.s = "for"     -> [ForLoop(s, 0, Min(EvalE(s.stop, st.env), s.max), st) EXCEPT !.brk = FALSE]
      [] s.s = "while"   -> [WhileLoop(s, 0, st) EXCEPT !.brk = FALSE]

\* run a whole program from an initial environment
Run(prog, env0) == ExecSeq(prog, 1, [env |-> env0, brk |-> FALSE]).env

\* does a for loop with `check` meet a stop value above its public maximum?  (then the oblivious version must refuse)
RECURSIVE StopExceeds(_, _, _)
StopExceeds(ss, i, env) ==
    IF i > Len(ss) THEN FALSE
    ELSE \/ (ss[i].s = "for" /\ ss[i].check /\ EvalE(ss[i].stop, env) > ss[i].max)
         \/ StopExceeds(ss, i + 1, ExecStmt(ss[i], [env |-> env, brk |-> FALSE]).env)
=============================================================================
