SPECIFICATION Spec
CONSTANT MaxLen = 2
PROPERTY WriteOne
INVARIANT Emit
CHECK_DEADLOCK FALSE
