SPECIFICATION Spec
INVARIANT Inv_Wtns
INVARIANT Inv_R1cs
CHECK_DEADLOCK FALSE
