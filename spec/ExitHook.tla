------------------------------ MODULE ExitHook ------------------------------
(***************************************************************************)
(* C18: proof artefacts are emitted at interpreter exit only for           *)
(* successful runs, and completely.                                        *)
(*                                                                         *)
(* Mechanism (pysnark.atexitmaybe + runtime.final): sys.exit and           *)
(* sys.excepthook are interposed at import; they record the exit code      *)
(* passed to sys.exit and the exception that reached the excepthook; the   *)
(* atexit hook runs the proving step unless a failing exit code or an      *)
(* exception was recorded.  A script is a sequence of traced statements    *)
(* that terminates in one of several ways at some position.                *)
(*                                                                         *)
(* The specification models what CPython and the code do, including the    *)
(* paths on which the interposition is bypassed; TLC checks the contract   *)
(* Inv_Exit on it (the bypass paths are its counterexamples, listed as     *)
(* known findings) and enumerates every configuration for replay.          *)
(***************************************************************************)
EXTENDS Integers, Sequences, TLC, Json

CONSTANTS NStmts          \* number of traced statements in the script

Modes == {"falloff", "sysexit", "sysexit0", "sysexitNone", "sysexit1", "sysexitStr", "exception", "kbdint",
          "raiseSE0", "raiseSE1", "builtinexit0", "builtinexit1"}

\* An EARLIER sys.exit call that did not end the process may precede the way the script finally terminates:
\*   "caught0"/"caught1": try: sys.exit(0 / 1) except SystemExit: pass     (argparse --help style), then the script goes on
\*   "fin0"/"fin1":       try: sys.exit(0 / 1) finally: <the final sys.exit>   (the later call decides the status)
\* The interposed sys.exit records the code of EVERY call; the last call wins; a termination that bypasses the interposition
\* leaves the code of the earlier call in place.
\*   "midprove":          the script calls backend.prove() itself after its first statement and goes on tracing: the hook's proof at
\*                        exit must still cover the COMPLETE trace (the explicit call is the user's business, not the hook's)
Priors == {"none", "caught0", "caught1", "fin0", "fin1", "midprove"}

VARIABLES pc, pos, mode, prior, autoprove, hasProcessSnark, exitcode, excseen, status, proved, hookfailed, lenAtProve
vars == <<pc, pos, mode, prior, autoprove, hasProcessSnark, exitcode, excseen, status, proved, hookfailed, lenAtProve>>

\* exitcode: what ExitOverrider.exit recorded: "unset", "zero", "none", "nonzero"
Init == /\ pc = "run" /\ pos = 0
        /\ mode \in Modes /\ autoprove \in BOOLEAN /\ hasProcessSnark \in BOOLEAN
        /\ prior \in Priors /\ (prior \in {"fin0", "fin1"} => mode \in {"sysexit0", "sysexit1", "sysexitStr"})
        /\ (prior = "midprove" => mode \in {"falloff", "sysexit0", "sysexit1", "exception"})
        /\ exitcode = "unset" /\ excseen = FALSE /\ status = -1 /\ proved = 0 /\ hookfailed = FALSE /\ lenAtProve = -1

Stmt == /\ pc = "run" /\ pos < NStmts /\ pos' = pos + 1
        /\ UNCHANGED <<pc, mode, prior, autoprove, hasProcessSnark, exitcode, excseen, status, proved, hookfailed, lenAtProve>>

\* process exit status CPython gives for each way of terminating
StatusOf(m) == CASE m \in {"falloff", "sysexit", "sysexit0", "sysexitNone", "raiseSE0", "builtinexit0"} -> 0
                 [] m \in {"sysexit1", "sysexitStr", "exception", "raiseSE1", "builtinexit1"} -> 1
                 [] m = "kbdint" -> 130

Terminate ==
    /\ pc = "run" /\ (mode = "falloff" => pos = NStmts)
    /\ pc' = "atexit"
    /\ status' = StatusOf(mode)
    \* only the interposed sys.exit records a code; `raise SystemExit` and the builtin exit() bypass it
    /\ exitcode' = CASE mode \in {"sysexit", "sysexit0"} -> "zero"
                     [] mode = "sysexitNone" -> "none"
                     [] mode \in {"sysexit1", "sysexitStr"} -> "nonzero"
                     [] OTHER -> (CASE prior \in {"caught0", "fin0"} -> "zero" [] prior \in {"caught1", "fin1"} -> "nonzero" [] OTHER -> "unset")
    \* the excepthook sees every uncaught exception except SystemExit
    /\ excseen' = (mode \in {"exception", "kbdint"})
    /\ UNCHANGED <<pos, mode, prior, autoprove, hasProcessSnark, proved, hookfailed, lenAtProve>>

\* atexit: maybe(final)
AtExit ==
    /\ pc = "atexit" /\ pc' = "done"
    /\ IF exitcode \in {"unset", "zero", "none"} /\ ~excseen
       THEN IF autoprove
            THEN proved' = proved + 1 /\ lenAtProve' = pos /\ hookfailed' = hookfailed
            ELSE proved' = proved /\ lenAtProve' = lenAtProve /\ hookfailed' = FALSE     \* final() calls backend.process_snark only if the backend offers it
       ELSE proved' = proved /\ lenAtProve' = lenAtProve /\ hookfailed' = hookfailed
    /\ UNCHANGED <<pos, mode, prior, autoprove, hasProcessSnark, exitcode, excseen, status>>

Next == Stmt \/ Terminate \/ AtExit
Spec == Init /\ [][Next]_vars

Done == pc = "done"

\* ---- contract
Inv_Exit ==
    Done => /\ (autoprove /\ status = 0) => (proved = 1 /\ lenAtProve = pos)
            /\ (status # 0) => proved = 0
            /\ (~autoprove) => (proved = 0 /\ ~hookfailed)

\* the bypass paths, as predicates on a finished behaviour (they are exactly the counterexamples TLC finds)
BypassNonzero == mode \in {"raiseSE1", "builtinexit1"} /\ autoprove /\ prior \notin {"caught1"}
\* the stale code of an earlier, caught sys.exit(1): a run that then ends with status 0 without another interposed call is not proved
StaleNonzero == prior = "caught1" /\ autoprove /\ mode \in {"falloff", "raiseSE0", "builtinexit0"}
Inv_ExitModuloKnown == (Done /\ ~BypassNonzero /\ ~StaleNonzero) => Inv_Exit

\* generator: one record per finished behaviour
Emit == Done => PrintT(<<"BEH", ToJson([mode |-> mode, prior |-> prior, pos |-> pos, autoprove |-> autoprove, hasps |-> hasProcessSnark,
                                        status |-> status, proved |-> proved, hookfailed |-> hookfailed, lenAtProve |-> lenAtProve])>>)
=============================================================================
