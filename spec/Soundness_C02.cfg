SPECIFICATION Spec
INVARIANT Inv_Unique
CHECK_DEADLOCK FALSE
