------------------------------ MODULE ArrayMem ------------------------------
(***************************************************************************)
(* Contract + generator for pysnark.array.Array (C15): the array is a      *)
(* plain Python list (of lists).  A read returns the element at the index, *)
(* a write replaces exactly that element, an index outside the bounds      *)
(* raises and changes nothing.  Indices are SECRET ("s": a LinComb; valid  *)
(* range 0..len-1) or PUBLIC ("p": a Python int, with Python's negative    *)
(* indexing, valid range -len..len-1); rows of a 2-D array can be read     *)
(* whole and stored at a public row position.                              *)
(***************************************************************************)
EXTENDS Integers, Sequences, TLC, Json

CONSTANTS MaxLen      \* number of accesses in a history

VARIABLES dim, arr, brr, arr0, hist, last
vars == <<dim, arr, brr, arr0, hist, last>>

\* initial contents: 1-D arrays of length 1..3 (next to a second 1-D array B of length 2, so that one index object can be
\* used on arrays of different lengths), a 2x2 and a non-square 3x2 array; cell values are distinct
Init1 == {<<1>>, <<1, 2>>, <<1, 2, 3>>}
Init2 == {<< <<1, 2>>, <<3, 4>> >>, << <<1, 2>>, <<3, 4>>, <<5, 6>> >>}
BInit == <<5, 6>>

Init == /\ \/ (dim = 1 /\ arr \in Init1)
           \/ (dim = 2 /\ arr \in Init2)
        /\ brr = BInit
        /\ arr0 = arr
        /\ hist = <<>> /\ last = [out |-> "ok", ret |-> <<>>]

Vals == {7, 9}
Kinds == {"s", "p"}

\* validity and position (1-based) of index i of kind k into a sequence of length n
Valid(i, k, n) == IF k = "s" THEN i >= 0 /\ i < n ELSE i >= -n /\ i < n
Pos(i, n) == IF i < 0 THEN i + n + 1 ELSE i + 1

\* index OBJECTS: re = "n" a fresh index object; "p" the secret index object of the previous access is used again (same
\* value, necessarily); "d" (two-dimensional accesses) the column index is the very object used as row index.  Reuse
\* changes nothing in the contract -- it is a dimension of the generator, the code must not care.
Reuses == {"n", "p", "d"}
ReOk(re, i, ik, j, jk) ==
    CASE re = "n" -> TRUE
      [] re = "p" -> ik = "s" /\ hist # <<>> /\ hist[Len(hist)].ik = "s" /\ hist[Len(hist)].i = i /\ hist[Len(hist)].a \notin {"copyrow", "copyrow2"}
      [] re = "d" -> ik = "s" /\ jk = "s" /\ i = j

Log(a) == hist' = Append(hist, a) /\ arr0' = arr0
Rec(a, i, ik, j, jk, v, re) == [a |-> a, i |-> i, ik |-> ik, j |-> j, jk |-> jk, v |-> v, re |-> re, cnd |-> -1]
\* writes may sit inside an oblivious branch (_if(c) ... _endif on a context holding the array): cnd = -1 no branch, 1 branch taken,
\* 0 branch NOT taken -- then nothing is written and a secret index outside the bounds does not raise (the code is inert);
\* a public index outside the bounds is wrong as program text and raises wherever it stands
Conds == {-1, 0, 1}
Writes(cnd) == cnd # 0
Ok(r) == [out |-> "ok", ret |-> r]
Raise == [out |-> "raise", ret |-> <<>>]

\* ---- one-dimensional
Get1(i, ik, re) ==
    /\ dim = 1 /\ dim' = dim /\ arr' = arr /\ brr' = brr /\ re # "d" /\ ReOk(re, i, ik, 0, "p")
    /\ last' = IF Valid(i, ik, Len(arr)) THEN Ok(<<arr[Pos(i, Len(arr))]>>) ELSE Raise
    /\ Log(Rec("get", i, ik, 0, "p", 0, re))

Set1(i, ik, v, re, cnd) ==
    /\ dim = 1 /\ dim' = dim /\ brr' = brr /\ re # "d" /\ ReOk(re, i, ik, 0, "p")
    /\ arr' = IF Valid(i, ik, Len(arr)) /\ Writes(cnd) THEN [arr EXCEPT ![Pos(i, Len(arr))] = v] ELSE arr
    /\ last' = IF Valid(i, ik, Len(arr)) \/ (cnd = 0 /\ ik = "s") THEN Ok(<<>>) ELSE Raise
    /\ Log([Rec("set", i, ik, 0, "p", v, re) EXCEPT !.cnd = cnd])

\* the second array B (in one-dimensional histories)
GetB(i, ik, re) ==
    /\ dim = 1 /\ dim' = dim /\ arr' = arr /\ brr' = brr /\ re # "d" /\ ReOk(re, i, ik, 0, "p")
    /\ last' = IF Valid(i, ik, Len(brr)) THEN Ok(<<brr[Pos(i, Len(brr))]>>) ELSE Raise
    /\ Log(Rec("getb", i, ik, 0, "p", 0, re))

SetB(i, ik, v, re) ==
    /\ dim = 1 /\ dim' = dim /\ arr' = arr /\ re # "d" /\ ReOk(re, i, ik, 0, "p")
    /\ brr' = IF Valid(i, ik, Len(brr)) THEN [brr EXCEPT ![Pos(i, Len(brr))] = v] ELSE brr
    /\ last' = IF Valid(i, ik, Len(brr)) THEN Ok(<<>>) ELSE Raise
    /\ Log(Rec("setb", i, ik, 0, "p", v, re))

\* ---- two-dimensional: a[i, j], reading a whole row a[i], storing a row read at src to the public row dst
Valid2(i, ik, j, jk) == Valid(i, ik, Len(arr)) /\ Valid(j, jk, Len(arr[1]))

Get2(i, ik, j, jk, re) ==
    /\ dim = 2 /\ dim' = dim /\ arr' = arr /\ brr' = brr /\ ReOk(re, i, ik, j, jk)
    /\ last' = IF Valid2(i, ik, j, jk) THEN Ok(<<arr[Pos(i, Len(arr))][Pos(j, Len(arr[1]))]>>) ELSE Raise
    /\ Log(Rec("get2", i, ik, j, jk, 0, re))

GetRow(i, ik, re) ==
    /\ dim = 2 /\ dim' = dim /\ arr' = arr /\ brr' = brr /\ re # "d" /\ ReOk(re, i, ik, 0, "p")
    /\ last' = IF Valid(i, ik, Len(arr)) THEN Ok(arr[Pos(i, Len(arr))]) ELSE Raise
    /\ Log(Rec("getrow", i, ik, 0, "p", 0, re))

\* (under a branch that is not taken only the PUBLIC components of the index can make the access raise)
Valid2Dead(i, ik, j, jk) == (ik = "s" \/ Valid(i, ik, Len(arr))) /\ (jk = "s" \/ Valid(j, jk, Len(arr[1])))
Set2(i, ik, j, jk, v, re, cnd) ==
    /\ dim = 2 /\ dim' = dim /\ brr' = brr /\ ReOk(re, i, ik, j, jk)
    /\ arr' = IF Valid2(i, ik, j, jk) /\ Writes(cnd) THEN [arr EXCEPT ![Pos(i, Len(arr))][Pos(j, Len(arr[1]))] = v] ELSE arr
    /\ last' = IF Valid2(i, ik, j, jk) \/ (cnd = 0 /\ Valid2Dead(i, ik, j, jk)) THEN Ok(<<>>) ELSE Raise
    /\ Log([Rec("set2", i, ik, j, jk, v, re) EXCEPT !.cnd = cnd])

\* m[dst] = m[src]  (dst public and valid; src of kind sk): the whole row is replaced by a copy of the source row
CopyRow(dst, src, sk) ==
    /\ dim = 2 /\ dim' = dim /\ dst \in 0..(Len(arr) - 1) /\ brr' = brr
    /\ arr' = IF Valid(src, sk, Len(arr)) THEN [arr EXCEPT ![dst + 1] = arr[Pos(src, Len(arr))]] ELSE arr
    /\ last' = IF Valid(src, sk, Len(arr)) THEN Ok(<<>>) ELSE Raise
    /\ Log(Rec("copyrow", dst, "p", src, sk, 0, "n"))

\* m[0] = m[1] = r with r = m[src] read ONCE: the very same row object is stored at two positions; the rows must still be
\* independent afterwards (a later write to one of them leaves the other alone)
CopyRowBoth(src, sk) ==
    /\ dim = 2 /\ dim' = dim /\ brr' = brr
    /\ arr' = IF Valid(src, sk, Len(arr)) THEN [arr EXCEPT ![1] = arr[Pos(src, Len(arr))], ![2] = arr[Pos(src, Len(arr))]] ELSE arr
    /\ last' = IF Valid(src, sk, Len(arr)) THEN Ok(<<>>) ELSE Raise
    /\ Log(Rec("copyrow2", 0, "p", src, sk, 0, "n"))

Step == \/ \E i \in -1..3, k \in Kinds, re \in Reuses : Get1(i, k, re) \/ GetRow(i, k, re) \/ GetB(i, k, re)
        \/ \E i \in -1..3, k \in Kinds, v \in Vals, re \in Reuses : Set1(i, k, v, re, -1)
        \/ \E i \in -1..3, k \in Kinds, re \in Reuses, c \in {0, 1} : Set1(i, k, 7, re, c)
        \/ \E i \in -1..3, k \in Kinds, re \in Reuses : SetB(i, k, 7, re)
        \/ \E i \in -1..3, j \in -1..2, ik \in Kinds, jk \in Kinds, re \in Reuses : Get2(i, ik, j, jk, re)
        \/ \E i \in -1..3, j \in -1..2, ik \in Kinds, jk \in Kinds, re \in Reuses, c \in Conds : Set2(i, ik, j, jk, 7, re, c)
        \* (a row read at a PUBLIC position is the row object itself -- Python aliasing, not modelled; a row read at a
        \*  secret position is a fresh selection of values)
        \/ \E d \in 0..1, s \in -1..2 : CopyRow(d, s, "s")
        \/ \E s \in 0..2 : CopyRowBoth(s, "s")

\* an access that raises INSIDE an open branch ends the history: the block API has no way to abandon an open block, a program
\* cannot catch the error and go on with the same context
Alive == hist = <<>> \/ ~(last.out = "raise" /\ hist[Len(hist)].cnd >= 0)
Next == Len(hist) < MaxLen /\ Alive /\ Step
Spec == Init /\ [][Next]_vars

\* ---- sanity of the reference itself: an element write changes at most one cell, a read none
RECURSIVE Flat(_)
Flat(s) == IF s = <<>> THEN <<>> ELSE (IF dim = 1 THEN <<Head(s)>> ELSE Head(s)) \o Flat(Tail(s))

DiffCount(s, t) == LET n == Len(s) IN IF n # Len(t) THEN 99 ELSE
                   LET D == {k \in 1..n : s[k] # t[k]} IN IF D = {} THEN 0 ELSE IF \E k \in D : D = {k} THEN 1 ELSE 2
Cells == Flat(arr) \o (IF dim = 1 THEN brr ELSE <<>>)
WriteOne == [][(hist' # hist /\ hist'[Len(hist')].a \notin {"copyrow", "copyrow2"}) => DiffCount(Flat(arr) \o brr, Flat(arr') \o brr') <= 1]_vars

\* generator: every history of exactly MaxLen accesses, with the initial array, once
Emit == (Len(hist) = MaxLen) => PrintT(<<"BEH", ToJson([dim |-> dim, arr0 |-> arr0, hist |-> hist])>>)
=============================================================================
