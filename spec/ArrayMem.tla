------------------------------ MODULE ArrayMem ------------------------------
(***************************************************************************)
(* Contract + generator for pysnark.array.Array accessed at SECRET indices *)
(* (C15): the array is a plain Python list (of lists); a read returns the  *)
(* element at the index, a write replaces exactly that element, an index   *)
(* outside the bounds raises and changes nothing.                          *)
(***************************************************************************)
EXTENDS Integers, Sequences, TLC, Json

CONSTANTS MaxLen      \* number of accesses in a history

VARIABLES dim, arr, arr0, hist, last
vars == <<dim, arr, arr0, hist, last>>

\* initial contents: 1-D arrays of length 1..3, and one 2x2 array; cell values are distinct
Init1 == {<<1>>, <<1, 2>>, <<1, 2, 3>>}
Init2 == {<< <<1, 2>>, <<3, 4>> >>}

Init == /\ \/ (dim = 1 /\ arr \in Init1)
           \/ (dim = 2 /\ arr \in Init2)
        /\ arr0 = arr
        /\ hist = <<>> /\ last = [out |-> "ok", ret |-> <<>>]

Vals == {7, 9}

InRange(i, s) == i >= 0 /\ i < Len(s)

Log(a) == hist' = Append(hist, a) /\ arr0' = arr0

\* ---- one-dimensional
Get1(i) == /\ dim = 1 /\ dim' = dim /\ arr' = arr
           /\ last' = IF InRange(i, arr) THEN [out |-> "ok", ret |-> <<arr[i + 1]>>] ELSE [out |-> "raise", ret |-> <<>>]
           /\ Log([a |-> "get", i |-> i, j |-> 0, v |-> 0])

Set1(i, v) == /\ dim = 1 /\ dim' = dim
              /\ arr' = IF InRange(i, arr) THEN [arr EXCEPT ![i + 1] = v] ELSE arr
              /\ last' = [out |-> IF InRange(i, arr) THEN "ok" ELSE "raise", ret |-> <<>>]
              /\ Log([a |-> "set", i |-> i, j |-> 0, v |-> v])

\* ---- two-dimensional: a[i, j] with both indices secret, and reading a whole row a[i]
Get2(i, j) == /\ dim = 2 /\ dim' = dim /\ arr' = arr
              /\ last' = IF InRange(i, arr) /\ InRange(j, arr[1]) THEN [out |-> "ok", ret |-> <<arr[i + 1][j + 1]>>]
                         ELSE [out |-> "raise", ret |-> <<>>]
              /\ Log([a |-> "get2", i |-> i, j |-> j, v |-> 0])

GetRow(i) == /\ dim = 2 /\ dim' = dim /\ arr' = arr
             /\ last' = IF InRange(i, arr) THEN [out |-> "ok", ret |-> arr[i + 1]] ELSE [out |-> "raise", ret |-> <<>>]
             /\ Log([a |-> "getrow", i |-> i, j |-> 0, v |-> 0])

Set2(i, j, v) == /\ dim = 2 /\ dim' = dim
                 /\ arr' = IF InRange(i, arr) /\ InRange(j, arr[1]) THEN [arr EXCEPT ![i + 1][j + 1] = v] ELSE arr
                 /\ last' = [out |-> IF InRange(i, arr) /\ InRange(j, arr[1]) THEN "ok" ELSE "raise", ret |-> <<>>]
                 /\ Log([a |-> "set2", i |-> i, j |-> j, v |-> v])

Idx == -1..3

Step == \/ \E i \in Idx : Get1(i) \/ GetRow(i)
        \/ \E i \in Idx, v \in Vals : Set1(i, v)
        \/ \E i \in -1..2, j \in -1..2 : Get2(i, j)
        \/ \E i \in -1..2, j \in -1..2, v \in {7} : Set2(i, j, v)

Next == Len(hist) < MaxLen /\ Step
Spec == Init /\ [][Next]_vars

\* ---- contract, as properties of the model (sanity of the reference itself)
\* a write changes at most one cell and a read none
RECURSIVE Flat(_)
Flat(s) == IF s = <<>> THEN <<>> ELSE (IF dim = 1 THEN <<Head(s)>> ELSE Head(s)) \o Flat(Tail(s))

DiffCount(s, t) == LET n == Len(s) IN IF n # Len(t) THEN 99 ELSE
                   LET D == {k \in 1..n : s[k] # t[k]} IN IF D = {} THEN 0 ELSE IF \E k \in D : D = {k} THEN 1 ELSE 2
WriteOne == [][DiffCount(Flat(arr), Flat(arr')) <= 1]_vars

\* generator: every history of exactly MaxLen accesses, with the initial array, once
Emit == (Len(hist) = MaxLen) => PrintT(<<"BEH", ToJson([dim |-> dim, arr0 |-> arr0, hist |-> hist])>>)
=============================================================================
