SPECIFICATION Spec
INVARIANT Inv_Modulus
INVARIANT Inv_Inverse
INVARIANT Inv_NoInverseOfZero
CHECK_DEADLOCK FALSE
