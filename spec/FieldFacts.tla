----------------------------- MODULE FieldFacts -----------------------------
(***************************************************************************)
(* C13, field clauses: the modulus a backend reports is the scalar-field   *)
(* order of its curve, and fieldinverse(x) is the multiplicative inverse   *)
(* of x modulo that prime for negative and unreduced x -- decided with     *)
(* exact limb arithmetic from a quotient certificate:                      *)
(*    x >= 0 :  |x| * inv     = 1 + k * p                                  *)
(*    x <  0 :  |x| * inv + 1 =     k * p          and  0 < inv < p.       *)
(***************************************************************************)
EXTENDS Integers, Sequences, TLC, Json, BigNat, CurveOrders

CONSTANT TraceFile
Data  == JsonDeserialize(TraceFile)
Facts == Data.facts

VARIABLES tid
Init == tid \in 1..Len(Facts)
Next == UNCHANGED tid
Spec == Init /\ [][Next]_tid
F == Facts[tid]
Pm == Order(F.backend)

Inv_Modulus == F.kind = "modulus" => (IsLimbs(F.p) /\ Eq(F.p, Pm))

Inv_Inverse ==
    F.kind = "inverse" =>
        /\ IsLimbs(F.inv) /\ IsLimbs(F.k) /\ IsLimbs(F.absx)
        /\ Lt(<<>>, F.inv) /\ Lt(F.inv, Pm)
        /\ IF F.neg THEN Eq(Add(Mul(F.absx, F.inv), <<1>>), Mul(F.k, Pm))
                    ELSE Eq(Mul(F.absx, F.inv), Add(<<1>>, Mul(F.k, Pm)))

\* a zero argument (also p, -p, 2p) has no inverse: the call must not return a value
Inv_NoInverseOfZero == F.kind = "inverse_of_zero" => F.raised
=============================================================================
