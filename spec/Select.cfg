SPECIFICATION Spec
CONSTANT MaxPre = 1
INVARIANT Inv_ContractOnModel
INVARIANT Emit
CHECK_DEADLOCK FALSE
