--------------------------- MODULE SnarkjsWriter ---------------------------
(***************************************************************************)
(* Mechanism specification of pysnark.snarkjsbackend.prove(): the byte     *)
(* layout of witness.wtns and circuit.r1cs (iden3 binary formats) as the   *)
(* code writes them, as a function of the traced system                    *)
(*   pubs, privs : the values handed to pubval / privval, in order         *)
(*   cons        : the constraints handed to add_constraint, each three    *)
(*                 linear combinations, each a sequence of <<key, coeff>>  *)
(*                 in the backend's term order (key 0 = one, +i = i-th     *)
(*                 public value, -j = j-th private value)                  *)
(* over a small prime P (the module's prime rebound for the run).          *)
(*                                                                         *)
(* The contract of C10 is judged on the DECODED files (SnarkjsFile.tla);   *)
(* this module predicts the files byte for byte.  A difference is          *)
(* MODEL-DRIFT (the writer no longer does what is transcribed here), not a *)
(* violation: a different but equivalent encoding (terms in another order, *)
(* zero terms dropped) is allowed by the property.                         *)
(***************************************************************************)
EXTENDS Integers, Sequences, TLC, Json

CONSTANT TraceFile
Data  == JsonDeserialize(TraceFile)
Cases == Data.cases

VARIABLE tid
Init == tid \in 1..Len(Cases)
Next == UNCHANGED tid
Spec == Init /\ [][Next]_tid

C == Cases[tid]
P == C.p

\* little-endian encoding of a natural number on n bytes
RECURSIVE LE(_, _)
LE(v, n) == IF n = 0 THEN <<>> ELSE <<v % 256>> \o LE(v \div 256, n - 1)

\* concatenation of a sequence of byte sequences (balanced, to keep copying down)
RECURSIVE CatRange(_, _, _)
CatRange(s, lo, hi) == IF lo > hi THEN <<>> ELSE IF lo = hi THEN s[lo]
                       ELSE LET mid == (lo + hi) \div 2 IN CatRange(s, lo, mid) \o CatRange(s, mid + 1, hi)
Cat(s) == CatRange(s, 1, Len(s))

NPub == Len(C.pubs)
NW   == NPub + Len(C.privs) + 1          \* the constant one, the public values, the private values
FE(v) == LE(v % P, 32)                   \* a field element: reduced, 32 bytes

\* ---- witness.wtns: "wtns", version 2, 2 sections; section 1 = (n8, prime, count), section 2 = the values
WtnsBytes ==
    <<119, 116, 110, 115>> \o LE(2, 4) \o LE(2, 4)
    \o LE(1, 4) \o LE(40, 8) \o LE(32, 4) \o LE(P, 32) \o LE(NW, 4)
    \o LE(2, 4) \o LE(NW * 32, 8) \o LE(1, 32)
    \o Cat([i \in DOMAIN C.pubs |-> FE(C.pubs[i])]) \o Cat([i \in DOMAIN C.privs |-> FE(C.privs[i])])

\* ---- circuit.r1cs: "r1cs", version 1, 3 sections: header, constraints, wire-to-label map (all zero)
Wire(k) == IF k >= 0 THEN k ELSE NPub - k
Term(t) == LE(Wire(t[1]), 4) \o FE(t[2])
LCBytes(lc) == LE(Len(lc), 4) \o Cat([i \in DOMAIN lc |-> Term(lc[i])])
ConBytes(c) == LCBytes(c[1]) \o LCBytes(c[2]) \o LCBytes(c[3])
RECURSIVE NTermsFrom(_)
NTermsFrom(k) == IF k > Len(C.cons) THEN 0 ELSE Len(C.cons[k][1]) + Len(C.cons[k][2]) + Len(C.cons[k][3]) + NTermsFrom(k + 1)
R1csBytes ==
    <<114, 49, 99, 115>> \o LE(1, 4) \o LE(3, 4)
    \o LE(1, 4) \o LE(64, 8) \o LE(32, 4) \o LE(P, 32) \o LE(NW, 4) \o LE(NPub, 4) \o LE(0, 4) \o LE(0, 4) \o LE(0, 8) \o LE(Len(C.cons), 4)
    \o LE(2, 4) \o LE(12 * Len(C.cons) + 36 * NTermsFrom(1), 8) \o Cat([k \in DOMAIN C.cons |-> ConBytes(C.cons[k])])
    \o LE(3, 4) \o LE(8 * NW, 8) \o Cat([i \in 1..NW |-> LE(0, 8)])

Inv_Wtns == C.wtns = WtnsBytes
Inv_R1cs == C.r1cs = R1csBytes
=============================================================================
