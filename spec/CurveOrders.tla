---------------------------- MODULE CurveOrders ----------------------------
(***************************************************************************)
(* Prime scalar-field orders of the curves pysnark's proof-producing       *)
(* backends work over, as little-endian base-256 limb sequences (TLC       *)
(* integers are 32 bit).  Published values:                                *)
(*   Bn128      r = 21888242871839275222246405745257275088548364400416034343698204186575808495617 *)
(*   Bls12381   r = 52435875175126190479447740508185965837690552500527637822603658699938581184513 *)
(*   Curve25519 r = 7237005577332262213973186563042994240857116359379907606001950938285454250989 *)
(* snarkjs, zkinterface (generic), qaptools: Bn128 (alt_bn128 / BN254);    *)
(* zkifbellman: BLS12-381; zkifbulletproofs: curve25519 (ristretto) order. *)
(* Primality of these constants is not decided by TLC (tools/setup_check.py *)
(* runs a one-off sympy.isprime on them).                                   *)
(***************************************************************************)
Bn128 == <<1, 0, 0, 240, 147, 245, 225, 67, 145, 112, 185, 121, 72, 232, 51, 40, 93, 88, 129, 129, 182, 69, 80, 184, 41, 160, 49, 225, 114, 78, 100, 48>>

Bls12381 == <<1, 0, 0, 0, 255, 255, 255, 255, 254, 91, 254, 255, 2, 164, 189, 83, 5, 216, 161, 9, 8, 216, 57, 51, 72, 125, 157, 41, 83, 167, 237, 115>>

Curve25519 == <<237, 211, 245, 92, 26, 99, 18, 88, 214, 156, 247, 162, 222, 249, 222, 20, 0, 0, 0, 0, 0, 0, 0, 0, 0, 0, 0, 0, 0, 0, 0, 16>>

Order(backend) ==
    CASE backend \in {"snarkjs", "zkinterface", "qaptools", "libsnark", "libsnarkgg"} -> Bn128
      [] backend = "zkifbellman" -> Bls12381
      [] backend = "zkifbulletproofs" -> Curve25519
=============================================================================
