----------------------------- MODULE TraceShape -----------------------------
(***************************************************************************)
(* C06: the constraint system does not depend on the values processed.     *)
(* Self-composition: runs of the SAME program on different public/private  *)
(* inputs (valid, invalid under ignore_errors, either value of a secret    *)
(* condition or guard) are zipped call by call against a reference run of  *)
(* their group; as long as both runs have completed every call so far,     *)
(* each call must have allocated the same kinds of variables in the same   *)
(* order, emitted the same constraints with the same coefficients, and     *)
(* returned the same wire expressions.                                     *)
(***************************************************************************)
EXTENDS Integers, Sequences, TLC, Json

CONSTANT TraceFile
Data   == JsonDeserialize(TraceFile)
Groups == Data.groups

VARIABLES gid, k, l, okSoFar
vars == <<gid, k, l, okSoFar>>

Ref == Groups[gid].ref
Oth == Groups[gid].others[k]

Init == /\ gid \in 1..Len(Groups)
        /\ k \in 1..Len(Groups[gid].others)
        /\ l = 0 /\ okSoFar = TRUE

MinLen == IF Len(Ref.events) < Len(Oth.events) THEN Len(Ref.events) ELSE Len(Oth.events)

Step == /\ l < MinLen
        /\ l' = l + 1 /\ gid' = gid /\ k' = k
        /\ okSoFar' = (okSoFar /\ Ref.events[l + 1].out = "ok" /\ Oth.events[l + 1].out = "ok")

Next == Step
Spec == Init /\ [][Next]_vars

Shape(e) == <<e.op, e.name, e.order, e.ncons, e.reslc>>

Inv_Shape ==
    (l >= 1 /\ okSoFar) => Shape(Ref.events[l]) = Shape(Oth.events[l])

\* both runs completing implies they performed the same number of calls
Inv_SameLength ==
    (l = MinLen /\ okSoFar) => Len(Ref.events) = Len(Oth.events)
=============================================================================
