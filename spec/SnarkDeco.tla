----------------------------- MODULE SnarkDeco -----------------------------
(***************************************************************************)
(* C17: a @snark function exposes exactly its numeric arguments and its    *)
(* secret results as public values, in depth-first order, and returns      *)
(* plain values.  Structures (lists, tuples, dicts) are handled as their   *)
(* depth-first leaf sequences; a leaf is [k, v, d, w] with kind k          *)
(*   pyint pybool pyfloat  : plain numbers (float = v/d)                   *)
(*   int bool fxp          : secret-typed objects (fxp: v = representation) *)
(*   none other            : anything else                                 *)
(***************************************************************************)
EXTENDS Integers, Sequences, TLC, Json

CONSTANT TraceFile
Data  == JsonDeserialize(TraceFile)
Calls == Data.calls

VARIABLES tid
vars == <<tid>>
C == Calls[tid]
Init == tid \in 1..Len(Calls)
Next == UNCHANGED tid
Spec == Init /\ [][Next]_vars

R == 2 ^ C.resolution

Numeric(x) == x.k \in {"pyint", "pybool", "pyfloat"}
Secret(x)  == x.k \in {"int", "bool", "fxp"}
Exact(x)   == x.k # "pyfloat" \/ (x.v * R) % x.d = 0

\* public value a numeric argument leaf must become
ArgPub(x) == IF x.k = "pyfloat" THEN (x.v * R) \div x.d ELSE x.v

RECURSIVE ArgPubs(_)
ArgPubs(xs) == IF xs = <<>> THEN <<>>
               ELSE (IF Numeric(Head(xs)) THEN <<ArgPub(Head(xs))>> ELSE <<>>) \o ArgPubs(Tail(xs))

RECURSIVE RetPubs(_)
RetPubs(xs) == IF xs = <<>> THEN <<>>
               ELSE (IF Secret(Head(xs)) THEN <<Head(xs).v>> ELSE <<>>) \o RetPubs(Tail(xs))

AllExact == \A i \in DOMAIN C.args : Exact(C.args[i])

\* exactly the arguments (in order) followed by the secret results (in order) became public, nothing else
Inv_Pub ==
    (C.out = "ok" /\ ~C.kw /\ AllExact) => C.pubs = ArgPubs(C.args) \o RetPubs(C.inner_ret)

\* the body sees every numeric argument as a secret-typed object of the same value, everything else untouched
InnerOK(a, x) ==
    CASE a.k = "pyint"   -> x.k = "int" /\ x.v = a.v
      [] a.k = "pybool"  -> x.k \in {"int", "bool"} /\ x.v = a.v
      [] a.k = "pyfloat" -> x.k = "fxp" /\ x.v = ArgPub(a)
      [] OTHER -> x.k = a.k /\ x.v = a.v

Inv_Inner ==
    (C.called /\ AllExact) => (Len(C.inner_args) = Len(C.args) /\ \A i \in DOMAIN C.args : InnerOK(C.args[i], C.inner_args[i]))

\* the caller gets plain values: what the undecorated function returned, with secrets opened
RetOK(x, y) ==
    CASE x.k \in {"int", "bool"} -> y.k \in {"pyint", "pybool"} /\ y.v = x.v
      [] x.k = "fxp" -> y.k = "pyfloat" /\ y.v * R = x.v * y.d
      [] OTHER -> y.k = x.k /\ y.v = x.v /\ y.d = x.d

Inv_Ret ==
    (C.out = "ok" /\ ~C.kw) => (Len(C.res) = Len(C.inner_ret) /\ C.shape = C.inner_shape /\ \A i \in DOMAIN C.res : RetOK(C.inner_ret[i], C.res[i]))

\* keyword arguments are refused, before the function runs and before anything becomes public
Inv_Kw == C.kw => (C.out = "raise" /\ ~C.called /\ C.pubs = <<>>)
=============================================================================
