SPECIFICATION Spec
INVARIANT Inv_Fxp
INVARIANT Inv_FxpUn
INVARIANT Inv_FxpNew
CHECK_DEADLOCK FALSE
