SPECIFICATION Spec
INVARIANT Inv_Fxp
INVARIANT Inv_FxpUn
INVARIANT Inv_FxpNew
INVARIANT Inv_FxpAssert
INVARIANT Inv_IntFxpAssert
CHECK_DEADLOCK FALSE
