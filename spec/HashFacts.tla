------------------------------ MODULE HashFacts ------------------------------
(***************************************************************************)
(* C20: published test vectors at the real primes, and the parameter set   *)
(* in use for every way the backend can have been selected.                *)
(***************************************************************************)
EXTENDS Integers, Sequences, TLC, Json, BigNat, CurveOrders, KnownDeviations

CONSTANT TraceFile
Data   == JsonDeserialize(TraceFile)
Facts  == Data.facts
Active == Data.active

VARIABLE tid
Init == tid \in 1..Len(Facts)
Next == UNCHANGED tid
Spec == Init /\ [][Next]_tid
F == Facts[tid]

\* published vectors (hadeshash reference implementation), permutation of the input (0,1,2,3,4), as limbs in Data.vectors
Inv_Vector ==
    F.kind = "vector" => (F.out = "ok" /\ Len(F.output) = 5 /\ \A i \in 1..5 : Eq(F.output[i], Data.vectors[F.vecname][i]))

\* which parameter set is registered for a backend name, and the field that set is meant for
SetFor(name) == CASE name = "zkinterface" -> "x5_254" [] name = "zkifbellman" -> "x5_255" [] name = "zkifbulletproofs" -> "c25519"
                  [] name = "nobackend" -> "toy" [] OTHER -> "none"
FieldOfSet(s) == CASE s = "x5_254" -> Bn128 [] s = "x5_255" -> Bls12381 [] s = "c25519" -> Curve25519 [] OTHER -> <<>>

ParamsRight ==
    /\ (SetFor(F.backend_name) = "none") => F.raised                      \* no registered set: refuse, never fall back
    /\ (SetFor(F.backend_name) # "none") => (~F.raised /\ F.setid = SetFor(F.backend_name))
    /\ (~F.raised /\ F.setid = "toy") => F.backend_name = "nobackend"      \* toy parameters only on the dummy backend
    /\ (~F.raised /\ F.setid \in {"x5_254", "x5_255", "c25519"}) => Eq(F.modulus, FieldOfSet(F.setid))   \* set matches the field in effect

\* subset-sum hash in the field in effect: the first 16 coefficients and the plain hash of the all-ones vector equal the independent
\* derivation (SHA-512 of (i, it), masked to the bit length of the prime, first candidate below the prime), compared limb-wise
Inv_GGH == F.kind = "ggh" => (Len(F.output) = Len(F.expect) /\ \A i \in DOMAIN F.expect : Eq(F.output[i], F.expect[i]))

Inv_Params == F.kind = "params" => (ParamsRight \/ KnownParams(Active, F))
=============================================================================
