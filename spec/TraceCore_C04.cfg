SPECIFICATION Spec
INVARIANT Inv_ValLC
CHECK_DEADLOCK FALSE
