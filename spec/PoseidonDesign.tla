--------------------------- MODULE PoseidonDesign ---------------------------
(***************************************************************************)
(* Design-level facts about the padding of Poseidon.tla, checked by TLC:   *)
(* messages of different length (or content) never share a padded form,    *)
(* and the padded length is a positive multiple of the rate.               *)
(***************************************************************************)
EXTENDS Poseidon, TLC, FiniteSets

Par == [t |-> 3]          \* rate 2: three blocks = up to 6 elements
Alphabet == {0, 1, 2}
Msgs == UNION {[1..n -> Alphabet] : n \in 0..6}

VARIABLES m1, m2
Init == m1 \in Msgs /\ m2 \in Msgs
Next == UNCHANGED <<m1, m2>>
Spec == Init /\ [][Next]_<<m1, m2>>

PadInjective == (m1 # m2) => Pad(m1, Par) # Pad(m2, Par)
PadShape == Len(Pad(m1, Par)) % Rate(Par) = 0 /\ Len(Pad(m1, Par)) > Len(m1) /\ Len(Pad(m1, Par)) <= Len(m1) + Rate(Par)
=============================================================================
