SPECIFICATION TSpec
CONSTANT P = 0
CONSTANT MaxLen = 100
INVARIANT Inv_Total
INVARIANT Inv_Base
INVARIANT Inv_Pool
CHECK_DEADLOCK FALSE
