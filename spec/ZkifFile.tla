------------------------------ MODULE ZkifFile ------------------------------
(***************************************************************************)
(* C11: zkinterface files (computation.zkif for the prover, circuit.zkif   *)
(* for verifiers) are sequences of well-formed size-prefixed messages that *)
(* encode exactly the traced circuit; the verifier file has no witness.    *)
(* One initial state per (program, field configuration).                   *)
(* Numbers are little-endian base-256 limb sequences; SmallP > 0: the      *)
(* backend ran over that small prime (public set_modulus) and TLC reduces  *)
(* every integer itself, SmallP = 0: certificates + exact limb arithmetic. *)
(***************************************************************************)
EXTENDS Integers, Sequences, TLC, Json, BigNat, CurveOrders

CONSTANT TraceFile
Data  == JsonDeserialize(TraceFile)
Cases == Data.cases

VARIABLES tid
Init == tid \in 1..Len(Cases)
Next == UNCHANGED tid
Spec == Init /\ [][Next]_tid

C  == Cases[tid]
T  == C.trace
SmallP == C.smallp
Pm == IF SmallP = 0 THEN Order(C.backend) ELSE FromNat(SmallP)
BL == C.bl                      \* bytes per field element: ceil(bitlength(p) / 8)

NPub  == Len(T.pub)
NPriv == Len(T.priv)

Comp == C.computation.msgs
Circ == C.circuit.msgs

Types(ms) == [i \in DOMAIN ms |-> ms[i].type]

\* ---- framing and message selection per file
Inv_Framing ==
    /\ C.computation.ok /\ C.circuit.ok                      \* every size prefix equals its message length, offsets inside the buffer
    /\ Types(Comp) = <<"CircuitHeader", "Witness", "ConstraintSystem">>
    /\ Types(Circ) = <<"CircuitHeader", "ConstraintSystem">>  \* the verifier file contains NO witness message

Hdr(ms) == ms[1]
Cons(ms) == ms[Len(ms)].cons

Canon(e) == Len(e) = BL /\ IsLimbs(e) /\ Lt(e, Pm)

Residue(x) == IF x.neg THEN (SmallP - ModSmall(x.abs, SmallP)) % SmallP ELSE ModSmall(x.abs, SmallP)
Cong(x, k, w) ==
    IF SmallP > 0 THEN (Len(Strip(w)) <= 3 /\ ToNat(Strip(w)) = Residue(x))
    ELSE IF x.neg THEN Eq(Add(x.abs, w), Mul(k, Pm)) ELSE Eq(x.abs, Add(w, Mul(k, Pm)))
IsZero(x, k) == IF SmallP > 0 THEN Residue(x) = 0 ELSE Eq(x.abs, Mul(k, Pm))

\* ---- header: instance variables 1..n with their values, first free id, field maximum p-1
HeaderOK(h) ==
    /\ h.ids = [k \in 1..NPub |-> k]
    /\ h.valsok /\ Len(h.vals) = NPub
    /\ \A k \in 1..NPub : Canon(h.vals[k]) /\ Cong(T.pub[k], T.pubk[k], h.vals[k])
    /\ h.free = NPub + NPriv + 1
    /\ Len(h.fmax) = BL /\ IsLimbs(h.fmax) /\ Eq(Add(h.fmax, <<1>>), Pm)

Inv_Header == (C.computation.ok /\ C.circuit.ok /\ Len(Comp) >= 1 /\ Len(Circ) >= 1) => (HeaderOK(Hdr(Comp)) /\ HeaderOK(Hdr(Circ)))

\* ---- constraints: exactly the traced ones, coefficients canonical
FileWire(k) == IF k >= 0 THEN k ELSE NPub - k

LCFaithful(tl, fl) ==
    /\ fl.valsok /\ Len(fl.vals) = Len(fl.ids)
    /\ \A i \in DOMAIN fl.ids : Canon(fl.vals[i])
    /\ \A i \in DOMAIN fl.ids : \E j \in DOMAIN tl : FileWire(tl[j].w) = fl.ids[i] /\ Cong(tl[j].c, tl[j].k, fl.vals[i])
    /\ \A j \in DOMAIN tl : IsZero(tl[j].c, tl[j].k) \/ \E i \in DOMAIN fl.ids : fl.ids[i] = FileWire(tl[j].w)
    /\ \A i, i2 \in DOMAIN fl.ids : i # i2 => fl.ids[i] # fl.ids[i2]

ConsFaithful(cs) ==
    /\ Len(cs) = Len(T.cons)
    /\ \A i \in DOMAIN cs : \A j \in 1..3 : LCFaithful(T.cons[i][j], cs[i][j])

Inv_Constraints ==
    (C.computation.ok /\ C.circuit.ok /\ Types(Comp) = <<"CircuitHeader", "Witness", "ConstraintSystem">> /\ Types(Circ) = <<"CircuitHeader", "ConstraintSystem">>)
        => (ConsFaithful(Cons(Comp)) /\ ConsFaithful(Cons(Circ)))

\* ---- witness message: exactly the private variables, in order, with their values
Wit == Comp[2]
Inv_Witness ==
    (C.computation.ok /\ Len(Comp) >= 2 /\ Comp[2].type = "Witness") =>
        /\ Wit.ids = [k \in 1..NPriv |-> NPub + k]
        /\ Wit.valsok /\ Len(Wit.vals) = NPriv
        /\ \A k \in 1..NPriv : Canon(Wit.vals[k]) /\ Cong(T.priv[k], T.privk[k], Wit.vals[k])

\* ---- the decoded assignment satisfies the decoded constraints
ValOf(id) == IF id = 0 THEN <<1>> ELSE IF id <= NPub THEN Hdr(Comp).vals[id] ELSE Wit.vals[id - NPub]
RECURSIVE EvalBig(_, _)
EvalBig(lc, i) == IF i > Len(lc.ids) THEN <<>> ELSE Add(Mul(lc.vals[i], ValOf(lc.ids[i])), EvalBig(lc, i + 1))
RECURSIVE EvalSmall(_, _)
EvalSmall(lc, i) == IF i > Len(lc.ids) THEN 0
                    ELSE (ToNat(Strip(lc.vals[i])) * ToNat(Strip(ValOf(lc.ids[i]))) + EvalSmall(lc, i + 1)) % SmallP
ConSat(c, cert) ==
    IF SmallP > 0 THEN (EvalSmall(c[1], 1) * EvalSmall(c[2], 1)) % SmallP = EvalSmall(c[3], 1)
    ELSE LET A == EvalBig(c[1], 1) B == EvalBig(c[2], 1) CC == EvalBig(c[3], 1) IN
         IF cert.neg THEN Eq(Add(Mul(A, B), Mul(cert.k, Pm)), CC) ELSE Eq(Mul(A, B), Add(CC, Mul(cert.k, Pm)))

Inv_FileSat ==
    (~C.raised /\ ~C.ign /\ Inv_Framing /\ Inv_Header /\ Inv_Witness /\ Inv_Constraints) =>
        \A i \in DOMAIN Cons(Comp) : ConSat(Cons(Comp)[i], C.satcert[i])

\* ---- the circuit-only file does not depend on private values: for a twin run with equal public and
\* different private values it is byte-identical
Inv_CircuitIndependent == C.hastwin => C.circbytes = C.twincircbytes
=============================================================================
