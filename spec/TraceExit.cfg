SPECIFICATION Spec
INVARIANT Inv_SuccessProves
INVARIANT Inv_FailureSilent
INVARIANT Inv_AutoproveOff
CHECK_DEADLOCK FALSE
