SPECIFICATION Spec
INVARIANT Inv_Framing
INVARIANT Inv_Header
INVARIANT Inv_Constraints
INVARIANT Inv_Witness
INVARIANT Inv_FileSat
INVARIANT Inv_CircuitIndependent
CHECK_DEADLOCK FALSE
