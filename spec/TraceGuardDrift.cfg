SPECIFICATION TSpec
CONSTANT MaxDepth = 8
CONSTANT MaxLen = 1000
INVARIANT Inv_Drift
INVARIANT Accepted
INVARIANT Stuck
CHECK_DEADLOCK FALSE
