SPECIFICATION TSpec
CONSTANT MaxDepth = 8
CONSTANT RaiseKinds = {0, 1, 2, 3}
CONSTANT MaxLen = 1000
INVARIANT Inv_Drift
INVARIANT Accepted
INVARIANT Stuck
CHECK_DEADLOCK FALSE
