---------------------------- MODULE SnarkjsFile ----------------------------
(***************************************************************************)
(* C10: the circuit.r1cs / witness.wtns files written for snarkjs are      *)
(* well-formed, canonical, decode to exactly the traced constraint system  *)
(* and assignment, and the decoded witness satisfies the decoded           *)
(* constraints.  One initial state per (program, file pair).               *)
(*                                                                         *)
(* Field elements are little-endian base-256 limb sequences.  With         *)
(* SmallP > 0 the backend ran over that small prime and TLC reduces every  *)
(* integer itself; with SmallP = 0 (the real 254-bit prime) congruences    *)
(* are decided from quotient certificates by exact limb arithmetic.        *)
(***************************************************************************)
EXTENDS Integers, Sequences, TLC, Json, BigNat, CurveOrders

CONSTANT TraceFile
Data  == JsonDeserialize(TraceFile)
Cases == Data.cases

VARIABLES tid
Init == tid \in 1..Len(Cases)
Next == UNCHANGED tid
Spec == Init /\ [][Next]_tid

C  == Cases[tid]
T  == C.trace
R  == C.r1cs
W  == C.wtns
SmallP == C.smallp
Pm == IF SmallP = 0 THEN Bn128 ELSE FromNat(SmallP)

NPub  == Len(T.pub)
NPriv == Len(T.priv)
NW    == 1 + NPub + NPriv

\* ---- well-formedness of the containers
Magic(s) == <<ToNat(<<>>)>>   \* (unused helper kept for readability)
R1csMagic == <<114, 49, 99, 115>>        \* "r1cs"
WtnsMagic == <<119, 116, 110, 115>>      \* "wtns"

SectionsOK(F, n) ==
    /\ F.nsections = n /\ F.nfound = n /\ ~F.overrun /\ F.trailing = 0
    /\ \A i \in DOMAIN F.sizes : F.sizes[i] = F.haves[i]             \* declared size = bytes present
    /\ \A i, j \in DOMAIN F.types : i # j => F.types[i] # F.types[j]

TermBytes(lc) == 4 + Len(lc) * 36
ConBytes(c)   == TermBytes(c[1]) + TermBytes(c[2]) + TermBytes(c[3])
RECURSIVE SumConBytes(_, _)
SumConBytes(cs, i) == IF i > Len(cs) THEN 0 ELSE ConBytes(cs[i]) + SumConBytes(cs, i + 1)

SizeOf(F, ty) == LET I == {i \in DOMAIN F.types : F.types[i] = ty} IN IF I = {} THEN -1 ELSE F.sizes[CHOOSE i \in I : TRUE]

WellFormedR1cs ==
    /\ R.magic = R1csMagic /\ R.version = 1
    /\ SectionsOK(R, 3) /\ {R.types[i] : i \in DOMAIN R.types} = {1, 2, 3}
    /\ R.header.n8 = 32 /\ R.header.len = R.header.expectlen /\ SizeOf(R, 1) = 64
    /\ Eq(R.header.prime, Pm)
    /\ R.header.nwires = NW
    /\ R.header.npubout + R.header.npubin = NPub
    /\ R.header.ncons = Len(T.cons) /\ Len(R.constraints) = Len(T.cons)
    /\ SizeOf(R, 2) = SumConBytes(R.constraints, 1) /\ R.consparsed = SizeOf(R, 2)
    /\ SizeOf(R, 3) = 8 * NW

WellFormedWtns ==
    /\ W.magic = WtnsMagic /\ W.version = 2
    /\ SectionsOK(W, 2) /\ {W.types[i] : i \in DOMAIN W.types} = {1, 2}
    /\ W.header.n8 = 32 /\ SizeOf(W, 1) = 40 /\ W.header.len = W.header.expectlen
    /\ Eq(W.header.prime, Pm)
    /\ W.header.nwitness = NW /\ Len(W.values) = NW /\ SizeOf(W, 2) = 32 * NW

Inv_WellFormed == WellFormedR1cs /\ WellFormedWtns

\* ---- every field element is canonical (below the prime)
Canon(e) == Len(e) = 32 /\ IsLimbs(e) /\ Lt(e, Pm)
Inv_Canonical ==
    /\ \A i \in DOMAIN W.values : Canon(W.values[i])
    /\ \A i \in DOMAIN R.constraints : \A j \in 1..3 : \A t \in DOMAIN R.constraints[i][j] : Canon(R.constraints[i][j][t].c)

\* ---- faithfulness: file element w is the residue of traced integer x (certificate k in the real field)
Residue(x) == IF x.neg THEN (SmallP - ModSmall(x.abs, SmallP)) % SmallP ELSE ModSmall(x.abs, SmallP)
Cong(x, k, w) ==
    IF SmallP > 0 THEN (Len(Strip(w)) <= 3 /\ ToNat(Strip(w)) = Residue(x))
    ELSE IF x.neg THEN Eq(Add(x.abs, w), Mul(k, Pm)) ELSE Eq(x.abs, Add(w, Mul(k, Pm)))
IsZero(x, k) == IF SmallP > 0 THEN Residue(x) = 0 ELSE (IF x.neg THEN Eq(x.abs, Mul(k, Pm)) ELSE Eq(x.abs, Mul(k, Pm)))

\* wire numbering: constant one, then public values in creation order, then private values in creation order
FileWire(k) == IF k >= 0 THEN k ELSE NPub - k

LCFaithful(tl, fl) ==
    \* every file term is a traced term with the congruent coefficient (or a zero coefficient of a traced term) ...
    /\ \A i \in DOMAIN fl : \E j \in DOMAIN tl : FileWire(tl[j].w) = fl[i].w /\ Cong(tl[j].c, tl[j].k, fl[i].c)
    \* ... every traced term with a non-zero coefficient is in the file, and no wire is listed twice
    /\ \A j \in DOMAIN tl : IsZero(tl[j].c, tl[j].k) \/ \E i \in DOMAIN fl : fl[i].w = FileWire(tl[j].w)
    /\ \A i, i2 \in DOMAIN fl : i # i2 => fl[i].w # fl[i2].w
    /\ \A i \in DOMAIN fl : fl[i].w < NW

Inv_FaithfulCircuit ==
    Len(R.constraints) = Len(T.cons) =>
        \A i \in DOMAIN T.cons : \A j \in 1..3 : LCFaithful(T.cons[i][j], R.constraints[i][j])

Inv_FaithfulWitness ==
    Len(W.values) = NW =>
        /\ Eq(W.values[1], <<1>>)
        /\ \A k \in 1..NPub : Cong(T.pub[k], T.pubk[k], W.values[1 + k])
        /\ \A k \in 1..NPriv : Cong(T.priv[k], T.privk[k], W.values[1 + NPub + k])

\* ---- the decoded witness satisfies the decoded constraints
RECURSIVE EvalBig(_, _)
EvalBig(lc, i) == IF i > Len(lc) THEN <<>> ELSE Add(Mul(lc[i].c, W.values[lc[i].w + 1]), EvalBig(lc, i + 1))
RECURSIVE EvalSmall(_, _)
EvalSmall(lc, i) == IF i > Len(lc) THEN 0
                    ELSE (ToNat(Strip(lc[i].c)) * ToNat(Strip(W.values[lc[i].w + 1])) + EvalSmall(lc, i + 1)) % SmallP

ConSat(c, cert) ==
    IF SmallP > 0
    THEN (EvalSmall(c[1], 1) * EvalSmall(c[2], 1)) % SmallP = EvalSmall(c[3], 1)
    ELSE LET A == EvalBig(c[1], 1) B == EvalBig(c[2], 1) CC == EvalBig(c[3], 1) IN
         IF cert.neg THEN Eq(Add(Mul(A, B), Mul(cert.k, Pm)), CC) ELSE Eq(Mul(A, B), Add(CC, Mul(cert.k, Pm)))

Inv_FileSat ==
    (~C.raised /\ ~C.ign /\ Inv_Canonical /\ Len(W.values) = NW
        /\ \A i \in DOMAIN R.constraints : \A j \in 1..3 : \A t \in DOMAIN R.constraints[i][j] : R.constraints[i][j][t].w < NW) =>
        \A i \in DOMAIN R.constraints : ConSat(R.constraints[i], C.satcert[i])
=============================================================================
