----------------------------- MODULE Branching -----------------------------
(***************************************************************************)
(* Mechanism + contract specification of pysnark.branching's block API     *)
(* (BranchingValues, IfContext, WhileContext; _if/_elif/_else/_endif,      *)
(* _while/_breakif/_endwhile) for C09.                                     *)
(*                                                                         *)
(* Mechanism side (what the code does): a context stack; entering a branch *)
(* backs up all tracked variables and records the branch condition; the    *)
(* body then writes variables unconditionally; leaving a branch MERGES     *)
(* every variable by selection on the branch condition (cond ? new : old); *)
(* variables first defined inside a branch are collected in `nodef` and    *)
(* merged across the arms; elif/else conditions are conjunctions with the  *)
(* negated earlier conditions; a loop's continuation condition is the      *)
(* conjunction of all conditions met so far, break = and-not.              *)
(*                                                                         *)
(* Contract side (native control flow): the same sequence of events is     *)
(* executed natively: a statement runs iff every enclosing arm / loop is   *)
(* active.  Conditions are abstract inputs (0/1 chosen per event), so the  *)
(* equivalence is established for every way the conditions can come out.   *)
(*                                                                         *)
(* TLC checks, for every well-nested event sequence within the bounds,     *)
(* that at nesting depth 0 the mechanism's variables equal the native      *)
(* ones, and prints each closed sequence for replay into the real code.    *)
(***************************************************************************)
EXTENDS Integers, Sequences, FiniteSets, TLC, Json

CONSTANTS MaxLen, MaxDepth

Vars == {"x", "y", "z"}
Undef == -99                       \* "not defined" (z starts undefined)

VARIABLES vals, ctxs, nat, nfl, err, hist
vars == <<vals, ctxs, nat, nfl, err, hist>>

\* expressions assigned: constants, x+1, x+y, y
Exprs == {"k5", "k7", "xp1", "xpy", "y"}
Defined(env, e) == CASE e \in {"k5", "k7"} -> TRUE [] e = "xp1" -> env["x"] # Undef [] e = "xpy" -> env["x"] # Undef /\ env["y"] # Undef [] e = "y" -> env["y"] # Undef
Ev(env, e) == CASE e = "k5" -> 5 [] e = "k7" -> 7 [] e = "xp1" -> env["x"] + 1 [] e = "xpy" -> env["x"] + env["y"] [] e = "y" -> env["y"]

\* the assignments the generator uses (a subset of Vars x Exprs keeps the state space in check)
Assigns == {<<"x", "xp1">>, <<"y", "k5">>, <<"y", "xpy">>, <<"z", "k7">>, <<"z", "y">>, <<"x", "y">>}

Init == /\ vals = [v \in Vars |-> IF v = "z" THEN Undef ELSE IF v = "x" THEN 1 ELSE 2]
        /\ nat = vals
        /\ ctxs = <<>> /\ nfl = <<>> /\ err = FALSE /\ hist = <<>>

Top == ctxs[Len(ctxs)]
Pop(s) == SubSeq(s, 1, Len(s) - 1)
Log(a) == hist' = Append(hist, a)
Rec(a, v, e, c) == [a |-> a, v |-> v, e |-> e, c |-> c, g |-> -1]
\* the guard that is active while the condition of an _elif is evaluated: the previous arm has been LEFT by then, so it is the
\* conjunction of the conditions of the enclosing contexts only (-1: no guard at all)
RECURSIVE CondProd(_, _)
CondProd(cs, k) == IF k = 0 THEN 1 ELSE cs[k].cond * CondProd(cs, k - 1)
EnclosingGuard == IF Len(ctxs) <= 1 THEN -1 ELSE CondProd(ctxs, Len(ctxs) - 1)

\* ---- the mechanism: BranchContext.enter / exit
\* frame: [kind, cond (this arm's condition), icond (no earlier arm taken and not this one), bak, nodef (or "none"), haselse]
NoDef == [v \in Vars |-> Undef]
Enter(kind, cond, icond, nodef, first) == [kind |-> kind, cond |-> cond, icond |-> icond, bak |-> vals, nodef |-> nodef, first |-> first]

\* BranchContext.exit(): returns [vals, nodef, err]
ExitArm(f) ==
    LET newvars == {v \in Vars : vals[v] # Undef /\ f.bak[v] = Undef}          \* defined inside this arm
        nd == IF f.first
              THEN [v \in Vars |-> IF v \in newvars THEN vals[v] ELSE Undef]
              ELSE [v \in Vars |-> IF f.nodef[v] # Undef THEN (IF f.cond = 1 THEN vals[v] ELSE f.nodef[v]) ELSE Undef]
        e1 == ~f.first /\ \E v \in Vars : f.nodef[v] # Undef /\ vals[v] = Undef           \* "branch did not set value"
        e2 == ~f.first /\ \E v \in newvars : f.nodef[v] = Undef                          \* "branch set spurious value"
        merged == [v \in Vars |-> IF f.bak[v] = Undef THEN Undef ELSE (IF f.cond = 1 THEN vals[v] ELSE f.bak[v])]
    IN [vals |-> merged, nodef |-> nd, err |-> e1 \/ e2]

Depth == Len(ctxs)
Can == ~err /\ Len(hist) < MaxLen

\* ---- native side: frames [taken, active] for if-chains and [active] for loops
NatActive == \A i \in DOMAIN nfl : nfl[i].active
NTop == nfl[Len(nfl)]

AIf(c) ==
    /\ Can /\ Depth < MaxDepth
    /\ ctxs' = Append(ctxs, Enter("if", c, 1 - c, NoDef, TRUE))
    /\ nfl' = Append(nfl, [kind |-> "if", taken |-> (c = 1), active |-> (c = 1)])
    /\ UNCHANGED <<vals, nat, err>> /\ Log(Rec("if", "", "", c))

AElif(c) ==
    /\ Can /\ Depth > 0 /\ Top.kind = "if" /\ Top.icond # -1
    /\ LET r == ExitArm(Top) IN
       /\ vals' = r.vals /\ err' = r.err
       /\ ctxs' = Append(Pop(ctxs), [Enter("if", IF Top.icond = 1 THEN c ELSE 0, IF Top.icond = 1 THEN 1 - c ELSE 0, r.nodef, FALSE) EXCEPT !.bak = r.vals])
    /\ nfl' = Append(Pop(nfl), [kind |-> "if", taken |-> (NTop.taken \/ c = 1), active |-> (~NTop.taken /\ c = 1)])
    /\ UNCHANGED nat /\ Log([Rec("elif", "", "", c) EXCEPT !.g = EnclosingGuard])

AElse ==
    /\ Can /\ Depth > 0 /\ Top.kind = "if" /\ Top.icond # -1
    /\ LET r == ExitArm(Top) IN
       /\ vals' = r.vals /\ err' = r.err
       /\ ctxs' = Append(Pop(ctxs), [Enter("if", Top.icond, -1, r.nodef, FALSE) EXCEPT !.bak = r.vals])
    /\ nfl' = Append(Pop(nfl), [kind |-> "if", taken |-> TRUE, active |-> ~NTop.taken])
    /\ UNCHANGED nat /\ Log(Rec("else", "", "", 0))

AEndIf ==
    /\ Can /\ Depth > 0 /\ Top.kind = "if"
    /\ LET r == ExitArm(Top)
           anynd == \E v \in Vars : r.nodef[v] # Undef
           noelse == Top.icond # -1 IN
       /\ err' = (r.err \/ (anynd /\ noelse))                       \* "if branch set ... and no else branch"
       /\ vals' = [v \in Vars |-> IF r.nodef[v] # Undef /\ ~noelse THEN r.nodef[v] ELSE r.vals[v]]
    /\ ctxs' = Pop(ctxs) /\ nfl' = Pop(nfl)
    /\ UNCHANGED nat /\ Log(Rec("endif", "", "", 0))

\* loops: _while(c) starts a loop or, called again, continues it with the conjunction; _breakif(c) = _while(1 - c)
AWhile(c) ==
    /\ Can
    /\ IF Depth > 0 /\ Top.kind = "while"
       THEN LET r == ExitArm(Top) nd == \E v \in Vars : r.nodef[v] # Undef IN
            /\ vals' = r.vals /\ err' = (r.err \/ nd)
            /\ ctxs' = Append(Pop(ctxs), [Enter("while", IF Top.cond = 1 THEN c ELSE 0, 0, NoDef, TRUE) EXCEPT !.bak = r.vals])
            /\ nfl' = Append(Pop(nfl), [kind |-> "while", taken |-> FALSE, active |-> (NTop.active /\ c = 1)])
       ELSE /\ Depth < MaxDepth
            /\ ctxs' = Append(ctxs, Enter("while", c, 0, NoDef, TRUE))
            /\ nfl' = Append(nfl, [kind |-> "while", taken |-> FALSE, active |-> (c = 1)])
            /\ UNCHANGED <<vals, err>>
    /\ UNCHANGED nat /\ Log(Rec("while", "", "", c))

ABreakIf(c) ==
    /\ Can /\ Depth > 0 /\ Top.kind = "while"
    /\ LET r == ExitArm(Top) nd == \E v \in Vars : r.nodef[v] # Undef IN
       /\ vals' = r.vals /\ err' = (r.err \/ nd)
       /\ ctxs' = Append(Pop(ctxs), [Enter("while", IF Top.cond = 1 THEN 1 - c ELSE 0, 0, NoDef, TRUE) EXCEPT !.bak = r.vals])
    /\ nfl' = Append(Pop(nfl), [kind |-> "while", taken |-> FALSE, active |-> (NTop.active /\ c = 0)])
    /\ UNCHANGED nat /\ Log(Rec("breakif", "", "", c))

AEndWhile ==
    /\ Can /\ Depth > 0 /\ Top.kind = "while"
    /\ LET r == ExitArm(Top) nd == \E v \in Vars : r.nodef[v] # Undef IN
       /\ vals' = r.vals /\ err' = (r.err \/ nd)
    /\ ctxs' = Pop(ctxs) /\ nfl' = Pop(nfl)
    /\ UNCHANGED nat /\ Log(Rec("endwhile", "", "", 0))

\* _.v = e : the mechanism writes unconditionally (the merge at exit undoes it if the arm is dead);
\* natively the assignment runs iff every enclosing frame is active
AAssign(v, e) ==
    /\ Can /\ Defined(vals, e)
    /\ vals' = [vals EXCEPT ![v] = Ev(vals, e)]
    /\ nat' = IF NatActive /\ Defined(nat, e) THEN [nat EXCEPT ![v] = Ev(nat, e)] ELSE nat
    /\ UNCHANGED <<ctxs, nfl, err>> /\ Log(Rec("assign", v, e, 0))

Next == \/ \E c \in {0, 1} : AIf(c) \/ AElif(c) \/ AWhile(c) \/ ABreakIf(c)
        \/ AElse \/ AEndIf \/ AEndWhile
        \/ \E p \in Assigns : AAssign(p[1], p[2])
Spec == Init /\ [][Next]_vars

---------------------------------------------------------------------------
\* C09 on the mechanism: when all blocks are closed and no structural error was raised, every variable the native
\* program defines has the native value (and untouched variables kept theirs)
Inv_Native == (Depth = 0 /\ ~err) => \A v \in Vars : (nat[v] # Undef => vals[v] = nat[v])

\* the native side never defines a variable the mechanism reports as merged-away without an error
Inv_NoSilentLoss == (Depth = 0 /\ ~err) => \A v \in Vars : (vals[v] = Undef => nat[v] = Undef)

\* generator: every closed event sequence (depth 0) that ends with a closing event
EmitBeh == (Depth = 0 /\ hist # <<>> /\ hist[Len(hist)].a \in {"endif", "endwhile"})
              => PrintT(<<"BEH", ToJson([hist |-> hist, err |-> err, vals |-> vals, nat |-> nat])>>)

\* generator of sequences that END in a structural error raised by the API while leaving a branch (for C08: the guard
\* must already be restored when that error escapes)
EmitErr == (err /\ hist # <<>>) => PrintT(<<"ERR", ToJson([hist |-> hist])>>)
=============================================================================
