SPECIFICATION TSpec
CONSTANT MaxPre = 2
INVARIANT Inv_Select
INVARIANT Inv_Interface
INVARIANT Inv_Sink
INVARIANT Inv_ArtefactField
CHECK_DEADLOCK FALSE
