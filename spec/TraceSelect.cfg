SPECIFICATION TSpec
CONSTANT MaxPre = 2
INVARIANT Inv_Select
INVARIANT Inv_Interface
INVARIANT Inv_Sink
CHECK_DEADLOCK FALSE
