------------------------------- MODULE R1CS -------------------------------
(***************************************************************************)
(* Rank-1 constraint systems over a prime field, as pysnark backends see   *)
(* them.  A linear combination is a sequence of <<wire, coef>> pairs with  *)
(* wire 0 = the constant one, wire k > 0 = k-th public value, wire -j =    *)
(* j-th private value.  Witness values are kept reduced mod P.  All        *)
(* arithmetic is TLC-native, so P*P must stay below 2^31.                  *)
(***************************************************************************)
EXTENDS Integers, Sequences

WireOK(w, pub, priv) == IF w >= 0 THEN w <= Len(pub) ELSE -w <= Len(priv)

WireVal(w, pub, priv) == IF w = 0 THEN 1 ELSE IF w > 0 THEN pub[w] ELSE priv[-w]

Scoped(lc, pub, priv) == \A i \in DOMAIN lc : WireOK(lc[i][1], pub, priv)

RECURSIVE EvalFrom(_, _, _, _, _)
EvalFrom(lc, i, pub, priv, P) ==
    IF i > Len(lc) THEN 0
    ELSE ((lc[i][2] % P) * WireVal(lc[i][1], pub, priv) + EvalFrom(lc, i + 1, pub, priv, P)) % P

Eval(lc, pub, priv, P) == EvalFrom(lc, 1, pub, priv, P)

\* a constraint is a triple <<A, B, C>> of linear combinations: A * B = C
ConScoped(c, pub, priv) == Scoped(c[1], pub, priv) /\ Scoped(c[2], pub, priv) /\ Scoped(c[3], pub, priv)

Holds(c, pub, priv, P) ==
    /\ ConScoped(c, pub, priv)
    /\ (Eval(c[1], pub, priv, P) * Eval(c[2], pub, priv, P)) % P = Eval(c[3], pub, priv, P)

Sat(cons, pub, priv, P) == \A i \in DOMAIN cons : Holds(cons[i], pub, priv, P)

\* canonical form: strictly increasing wires, coefficients in 1..P-1
Canonical(lc, P) ==
    /\ \A i \in DOMAIN lc : lc[i][2] \in 1..(P - 1)
    /\ \A i \in 1..(Len(lc) - 1) : lc[i][1] < lc[i + 1][1]

\* sequence of field "m" of a sequence of encoded integers
RECURSIVE MapM(_)
MapM(s) == IF s = <<>> THEN <<>> ELSE <<Head(s).m>> \o MapM(Tail(s))
=============================================================================
