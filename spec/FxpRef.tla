------------------------------- MODULE FxpRef -------------------------------
(***************************************************************************)
(* Reference semantics of pysnark fixed-point arithmetic as exact scaled-  *)
(* integer arithmetic: with resolution r a number v is represented by the  *)
(* integer v * 2^r.  All operators are defined on representations.         *)
(***************************************************************************)
EXTENDS Integers, Sequences, PyRef

Scale(r) == 2 ^ r

\* representation of an operand of kind k (value v, denominator d for floats)
Representable(k, v, d, r) == k # "pyfloat" \/ (v * Scale(r)) % d = 0
Rep(k, v, d, r) ==
    CASE k = "fxp" -> v
      [] k \in {"int", "bool", "pyint", "pybool"} -> v * Scale(r)
      [] k = "pyfloat" -> (v * Scale(r)) \div d

IsInt(k) == k \in {"int", "bool", "pyint", "pybool"}

\* result representation of `a op b` where at least one operand is fixed point.
\* ka, kb operand kinds; A, B their representations; va, vb their plain values (for integer operands)
FxpBin(op, ka, A, va, kb, B, vb, r) ==
    LET R == Scale(r) IN
    CASE op = "add" -> A + B
      [] op = "sub" -> A - B
      [] op = "mul" -> IF IsInt(kb) THEN A * vb ELSE IF IsInt(ka) THEN va * B ELSE FloorDiv(A * B, R)
      [] op = "truediv"  -> IF kb \in {"pyint", "pybool"} /\ ka = "fxp" THEN FloorDiv(A, vb) ELSE FloorDiv(A * R, B)
      [] op = "floordiv" -> FloorDiv(A, B) * R
      [] op = "mod"      -> PyMod(A, B)
      [] op = "eq" -> B2I(A = B)
      [] op = "ne" -> B2I(A # B)
      [] op = "lt" -> B2I(A < B)
      [] op = "le" -> B2I(A <= B)
      [] op = "gt" -> B2I(A > B)
      [] op = "ge" -> B2I(A >= B)

FxpDefined(op, B) == op \in {"truediv", "floordiv", "mod", "divmod"} => B # 0

RECURSIVE FxpPow(_, _, _)
FxpPow(A, n, r) == IF n = 0 THEN Scale(r) ELSE IF n = 1 THEN A ELSE FloorDiv(A * FxpPow(A, n - 1, r), Scale(r))
=============================================================================
