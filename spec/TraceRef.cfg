SPECIFICATION Spec
INVARIANT Inv_Ref
INVARIANT Inv_NoSpuriousRaise
CHECK_DEADLOCK FALSE
