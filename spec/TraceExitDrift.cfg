SPECIFICATION Spec
INVARIANT Inv_Predicted
CHECK_DEADLOCK FALSE
