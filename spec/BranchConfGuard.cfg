SPECIFICATION Spec
INVARIANT Inv_ElifGuard
CHECK_DEADLOCK FALSE
