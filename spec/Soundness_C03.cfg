SPECIFICATION Spec
INVARIANT Inv_Enforced
INVARIANT Inv_Complete
INVARIANT Inv_SameRel
CHECK_DEADLOCK FALSE
