SPECIFICATION Spec
INVARIANT Inv_Enforced
INVARIANT Inv_Complete
INVARIANT Inv_SameRel
INVARIANT Inv_EnforcedFree
CHECK_DEADLOCK FALSE
