SPECIFICATION Spec
INVARIANT Inv_Raise
INVARIANT Inv_Witness
INVARIANT Inv_Cons
INVARIANT Inv_Objects
CHECK_DEADLOCK FALSE
