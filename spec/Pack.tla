-------------------------------- MODULE Pack --------------------------------
(***************************************************************************)
(* Reference for bit decomposition and the packers of pysnark.pack (C16).  *)
(* A schema is a record: [t |-> "bool"], [t |-> "intmod", m |-> M],        *)
(* [t |-> "list", items |-> <<schemas>>], [t |-> "repeat", of |-> schema,  *)
(* n |-> N].  Structured values are handled as their depth-first sequence  *)
(* of leaves; bits are least-significant first.                            *)
(***************************************************************************)
EXTENDS Integers, Sequences, PyRef

\* the n low bits of v, least significant first
RECURSIVE Bits(_, _)
Bits(v, n) == IF n = 0 THEN <<>> ELSE <<v % 2>> \o Bits(v \div 2, n - 1)

RECURSIVE FromBits(_)
FromBits(bs) == IF bs = <<>> THEN 0 ELSE Head(bs) + 2 * FromBits(Tail(bs))

Width(m) == BitLength(m - 1)

RECURSIVE NLeaves(_), NLeavesSeq(_), BitLen(_), BitLenSeq(_)
NLeaves(s) == CASE s.t = "bool" -> 1 [] s.t = "intmod" -> 1
                [] s.t = "list" -> NLeavesSeq(s.items) [] s.t = "repeat" -> s.n * NLeaves(s.of)
NLeavesSeq(ss) == IF ss = <<>> THEN 0 ELSE NLeaves(Head(ss)) + NLeavesSeq(Tail(ss))
BitLen(s) == CASE s.t = "bool" -> 1 [] s.t = "intmod" -> Width(s.m)
               [] s.t = "list" -> BitLenSeq(s.items) [] s.t = "repeat" -> s.n * BitLen(s.of)
BitLenSeq(ss) == IF ss = <<>> THEN 0 ELSE BitLen(Head(ss)) + BitLenSeq(Tail(ss))

\* bits of the leaves xs (starting at leaf index i) under schema s
RECURSIVE PackAt(_, _, _), PackSeq(_, _, _), PackRep(_, _, _, _)
PackAt(s, xs, i) ==
    CASE s.t = "bool"   -> <<IF xs[i] # 0 THEN 1 ELSE 0>>
      [] s.t = "intmod" -> Bits(xs[i], Width(s.m))
      [] s.t = "list"   -> PackSeq(s.items, xs, i)
      [] s.t = "repeat" -> PackRep(s.of, s.n, xs, i)
PackSeq(ss, xs, i) == IF ss = <<>> THEN <<>> ELSE PackAt(Head(ss), xs, i) \o PackSeq(Tail(ss), xs, i + NLeaves(Head(ss)))
PackRep(s, n, xs, i) == IF n = 0 THEN <<>> ELSE PackAt(s, xs, i) \o PackRep(s, n - 1, xs, i + NLeaves(s))

PackRef(s, xs) == PackAt(s, xs, 1)

\* leaves recovered from bits bs (starting at bit position p, 1-based) under schema s
RECURSIVE UnpackAt(_, _, _), UnpackSeq(_, _, _), UnpackRep(_, _, _, _)
UnpackAt(s, bs, p) ==
    CASE s.t = "bool"   -> <<bs[p]>>
      [] s.t = "intmod" -> <<FromBits(SubSeq(bs, p, p + Width(s.m) - 1))>>
      [] s.t = "list"   -> UnpackSeq(s.items, bs, p)
      [] s.t = "repeat" -> UnpackRep(s.of, s.n, bs, p)
UnpackSeq(ss, bs, p) == IF ss = <<>> THEN <<>> ELSE UnpackAt(Head(ss), bs, p) \o UnpackSeq(Tail(ss), bs, p + BitLen(Head(ss)))
UnpackRep(s, n, bs, p) == IF n = 0 THEN <<>> ELSE UnpackAt(s, bs, p) \o UnpackRep(s, n - 1, bs, p + BitLen(s))

UnpackRef(s, bs) == UnpackAt(s, bs, 1)

\* are the leaves inside the ranges of the schema?
RECURSIVE InRangeAt(_, _, _), InRangeSeq(_, _, _), InRangeRep(_, _, _, _)
InRangeAt(s, xs, i) ==
    CASE s.t = "bool"   -> TRUE
      [] s.t = "intmod" -> xs[i] >= 0 /\ xs[i] < s.m
      [] s.t = "list"   -> InRangeSeq(s.items, xs, i)
      [] s.t = "repeat" -> InRangeRep(s.of, s.n, xs, i)
InRangeSeq(ss, xs, i) == IF ss = <<>> THEN TRUE ELSE InRangeAt(Head(ss), xs, i) /\ InRangeSeq(Tail(ss), xs, i + NLeaves(Head(ss)))
InRangeRep(s, n, xs, i) == IF n = 0 THEN TRUE ELSE InRangeAt(s, xs, i) /\ InRangeRep(s, n - 1, xs, i + NLeaves(s))

\* sanity of the reference itself: unpack o pack = identity on in-range leaves (checked by TLC on every case)
RoundTripRef(s, xs) == InRangeAt(s, xs, 1) => UnpackRef(s, PackRef(s, xs)) = [k \in DOMAIN xs |-> IF TRUE THEN xs[k] ELSE 0]
=============================================================================
