---------------------------- MODULE TraceGuarded ----------------------------
(***************************************************************************)
(* C07: a false guard makes code inert, a true guard is transparent.       *)
(* Three runs of the same body on the same operand values are zipped call  *)
(* by call: U (unguarded), G1 (inside a region whose secret guard is 1),   *)
(* G0 (guard 0).  The body's calls are aligned by position.                *)
(***************************************************************************)
EXTENDS Integers, Sequences, TLC, Json, KnownDeviations

CONSTANT TraceFile
Data    == JsonDeserialize(TraceFile)
Triples == Data.triples
Active  == Data.active

VARIABLES tid, l
vars == <<tid, l>>

T  == Triples[tid]
U  == T.u
G1 == T.g1
G0 == T.g0

MaxLen == LET a == Len(U) b == Len(G1) c == Len(G0) IN
          IF a >= b /\ a >= c THEN a ELSE IF b >= c THEN b ELSE c

Init == tid \in 1..Len(Triples) /\ l = 0
Next == l < MaxLen /\ l' = l + 1 /\ tid' = tid
Spec == Init /\ [][Next]_vars

\* a call that is wrong as program text, whatever the secret values (Python itself rejects it):
\* constant zero divisor, negative constant shift count or exponent
A2(e) == e.args[2][1]
\* ... or a method of traced objects called on a plain Python number (e.g. on the int 0 that x >> bitlength returns): a type error
TextError(e) ==
    \/ /\ e.op = "bin" /\ Len(e.args) = 2 /\ Len(e.args[2]) = 1 /\ A2(e).k \in {"pyint", "pybool", "pyfloat"} /\ ~A2(e).w
       /\ \/ e.name \in {"truediv", "floordiv", "mod", "divmod"} /\ A2(e).v = 0
          \/ e.name \in {"lshift", "rshift", "pow"} /\ A2(e).v < 0
    \/ /\ e.op = "meth" /\ Len(e.args) >= 1 /\ Len(e.args[1]) = 1 /\ e.args[1][1].k \in {"pyint", "pybool", "pyfloat"}

\* --- inert: under a false guard no call of the body raises because of the values it meets
Inv_Inert ==
    (l >= 1 /\ l <= Len(G0)) => (G0[l].out = "ok" \/ TextError(G0[l]) \/ KnownInert(Active, G0[l]))

\* a false-guard run performs every call of the body: it is never cut short
Inv_InertComplete ==
    (l = MaxLen /\ l >= 1) => (Len(G0) = T.bodylen \/ \E j \in DOMAIN G0 : G0[j].out # "ok")

RaiseIdx(s) == {j \in DOMAIN s : s[j].out # "ok"}
\* (T.cut = FALSE for "tail" comparisons, where both runs are top-level code that goes on after a logged raise)
EffLen(s) == IF RaiseIdx(s) = {} \/ ~T.cut THEN Len(s) ELSE CHOOSE j \in RaiseIdx(s) : \A k \in RaiseIdx(s) : j <= k

\* --- transparent: same outcome, same exception class, same values as unguarded code
Vals(e) == [i \in DOMAIN e.res |-> <<e.res[i].k, e.res[i].v, e.res[i].w, e.res[i].m>>]

Inv_Transparent ==
    (l >= 1 /\ l <= EffLen(U) /\ l <= Len(G1)) =>
        /\ G1[l].out = U[l].out
        /\ G1[l].exc = U[l].exc
        /\ (U[l].out = "ok" => Vals(G1[l]) = Vals(U[l]))

\* ... and the guarded run is not cut short or prolonged
\* (an exception ends a guarded body; the unguarded driver run carries on after logging it, so U counts up to its first raise)

Inv_TransparentLength ==
    (l = MaxLen) => Len(G1) = EffLen(U)
=============================================================================
