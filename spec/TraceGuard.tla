----------------------------- MODULE TraceGuard -----------------------------
(***************************************************************************)
(* Binds Guard.tla to the implementation: every recorded event of a run on *)
(* the real code is consumed by the Guard action it corresponds to, and    *)
(* the guard triple the code reported after the event is compared with the *)
(* specification's.  Contract invariants (C08) alarm; a mismatch in the    *)
(* parts of the triple the property does not speak about is model drift.   *)
(***************************************************************************)
EXTENDS Guard, IOUtils

CONSTANT TraceFile
Data   == JsonDeserialize(TraceFile)
Traces == Data.traces

VARIABLES tid, l, snaps, prev, before, popped
tvars == <<vars, tid, l, snaps, prev, before, popped>>

Tr  == Traces[tid]
Evs == Tr.events
E   == Evs[l + 1]          \* event being consumed
Last == Evs[l]

Snap(g) == <<g.has, g.v, g.ign, g.oneconst, g.tok, g.onetok>>
InitSnap == <<FALSE, 1, FALSE, TRUE, 0, 1>>

TInit == /\ Init
         /\ tid \in 1..Len(Traces)
         /\ l = 0 /\ snaps = <<>> /\ prev = InitSnap /\ before = InitSnap /\ popped = InitSnap

Consume == l < Len(Evs) /\ l' = l + 1 /\ tid' = tid /\ prev' = Snap(E.g) /\ before' = prev
Keep == popped' = popped
PopSnap == snaps # <<>> /\ popped' = snaps[Len(snaps)] /\ snaps' = SubSeq(snaps, 1, Len(snaps) - 1)

TEnter    == Consume /\ E.ev = "enter" /\ Enter(E.c) /\ snaps' = Append(snaps, prev) /\ Keep
TEnterC   == Consume /\ E.ev = "enter_const" /\ EnterConst /\ snaps' = Append(snaps, prev) /\ Keep
TSetIgnIn == Consume /\ E.ev = "setign_in" /\ SetIgnInside(E.c = 1) /\ snaps' = snaps /\ Keep
TRejected == Consume /\ E.ev = "rejected" /\ EnterRejected /\ snaps' = snaps /\ Keep
TLeave    == Consume /\ E.ev = "leave" /\ Leave /\ PopSnap
TAbort    == Consume /\ E.ev = "abort" /\ Unwind /\ PopSnap
TRaise    == Consume /\ E.ev = "raise" /\ Raise(E.c) /\ snaps' = snaps /\ Keep
TTry      == Consume /\ E.ev = "try_enter" /\ TryEnter /\ snaps' = Append(snaps, prev) /\ Keep
TTryDone  == Consume /\ E.ev = "try_done" /\ TryLeave /\ PopSnap
TCaught   == Consume /\ E.ev = "try_caught" /\ Catch /\ PopSnap
TCall     == Consume /\ E.ev = "call" /\ Call /\ snaps' = snaps /\ Keep
TSetIgn   == Consume /\ E.ev = "setign" /\ SetIgn(E.c = 1) /\ snaps' = snaps /\ Keep
\* markers emitted before a compound call starts: no state change
TMarker   == Consume /\ E.ev = "marker" /\ UNCHANGED vars /\ snaps' = snaps /\ Keep
\* the exception reached the top level of the script: silent step, bounded (enabled only while unwinding at depth 0)
TEscape   == Escape /\ UNCHANGED <<tid, l, snaps, prev, before, popped>>

TNext == TEnter \/ TEnterC \/ TSetIgnIn \/ TRejected \/ TLeave \/ TAbort \/ TRaise \/ TTry \/ TTryDone \/ TCaught \/ TCall \/ TSetIgn \/ TMarker \/ TEscape
TSpec == TInit /\ [][TNext]_tvars

---------------------------------------------------------------------------
(* Contract, on what the code reported.                                    *)
EndsRegion == l >= 1 /\ Last.ev \in {"leave", "abort"}

\* after a guarded region ends (normally or by exception) the reported guard, error-suppression flag and
\* constant-one binding -- including object identities -- are those reported right before it was entered
Inv_Restore ==
    EndsRegion => Snap(Last.g) = popped

\* a rejected entry (condition not 0/1) leaves the triple untouched
Inv_RejectedUntouched ==
    (l >= 1 /\ Last.ev = "rejected") => Snap(Last.g) = before

\* the reported guard value is the conjunction of the conditions of all open guarded regions
Inv_NestConj ==
    (l >= 1 /\ ~unwinding) =>
        /\ Last.g.has = (GuardFrames # {})
        /\ (GuardFrames # {} => Last.g.v = ProdConds(Len(frames)))

\* at top level, outside any region, nothing of a guard is left behind
Inv_TopClean ==
    (l >= 1 /\ frames = <<>> /\ ~unwinding) => (~Last.g.has /\ Last.g.oneconst /\ Last.g.tok = 0 /\ Last.g.onetok = 1)

\* the meaning of constants: a plain integer c turned into a linear combination (LinComb._ensurelc(3), what every assert_* does with
\* an integer operand) is 3 times the constant one outside regions and 3 times the ACTIVE guard inside -- in particular, after a
\* region has ended, nothing of that region's guard is left in it.  (E.k3 = the wire expression the code returned, E.g.lc the guard's)
Times3(lc) == [i \in DOMAIN lc |-> <<lc[i][1], (3 * lc[i][2]) % Tr.P>>]
Inv_ConstMeaning ==
    (l >= 1 /\ Last.ev = "call" /\ Last.hask3 /\ ~unwinding) =>
        Last.k3 = (IF GuardFrames = {} THEN << <<0, 3>> >> ELSE Times3(Last.g.lc))

\* conformance of the remaining components with the mechanism spec (model drift, not an alarm)
Inv_Drift ==
    (l >= 1 /\ ~unwinding) =>
        /\ Last.g.ign = ign
        /\ Last.g.oneconst = (one = "const")
        /\ (one = "guard" => Last.g.onetok = Last.g.tok)

\* acceptance: the whole trace was explained by Guard actions, and the history the spec accumulated
\* is the behaviour the program was generated from
Accepted == (l = Len(Evs) /\ ~unwinding) => hist = Tr.expect
Stuck == ~(l < Len(Evs) /\ ~ENABLED TNext)
=============================================================================
