#!/venv/bin/python
"""setup_cmd: verifies the toolchain offline -- parses every TLA+ module with SANY. Builds nothing."""
import glob
import os
import subprocess
import sys

ROOT = os.path.dirname(os.path.dirname(os.path.abspath(__file__)))
bad = 0
for f in sorted(glob.glob(os.path.join(ROOT, "spec", "*.tla"))):
    p = subprocess.run(["tla-sany", os.path.basename(f)], cwd=os.path.dirname(f), stdout=subprocess.PIPE, stderr=subprocess.STDOUT, text=True)
    if p.returncode != 0 or "Semantic errors" in p.stdout or "*** Errors" in p.stdout or "Fatal" in p.stdout:
        print("SANY failed on", f)
        print(p.stdout[-1500:])
        bad += 1
# one-off sanity of the spec's curve-order constants (primality is not decided by TLC)
import re
txt = open(os.path.join(ROOT, "spec", "CurveOrders.tla")).read()
consts = {m.group(1): [int(x) for x in m.group(2).split(",")] for m in re.finditer(r"^(\w+) == <<([0-9, ]+)>>", txt, re.M)}
code = "import sympy,sys\n" + "\n".join("assert sympy.isprime(%d), %r" % (sum(v << (8 * i) for i, v in enumerate(l)), n) for n, l in consts.items()) + "\nprint('curve orders prime:', %r)" % sorted(consts)
p = subprocess.run(["python3-vt", "-c", code], stdout=subprocess.PIPE, stderr=subprocess.STDOUT, text=True)
print(p.stdout.strip())
if p.returncode != 0:
    bad += 1
print("setup: %d spec modules parsed, %d failed" % (len(glob.glob(os.path.join(ROOT, "spec", "*.tla"))), bad))
sys.exit(1 if bad else 0)
