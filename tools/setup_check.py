#!/venv/bin/python
"""setup_cmd: verifies the toolchain offline -- parses every TLA+ module with SANY. Builds nothing."""
import glob
import os
import subprocess
import sys

ROOT = os.path.dirname(os.path.dirname(os.path.abspath(__file__)))
bad = 0
for f in sorted(glob.glob(os.path.join(ROOT, "spec", "*.tla"))):
    p = subprocess.run(["tla-sany", os.path.basename(f)], cwd=os.path.dirname(f), stdout=subprocess.PIPE, stderr=subprocess.STDOUT, text=True)
    if p.returncode != 0 or "Semantic errors" in p.stdout or "*** Errors" in p.stdout or "Fatal" in p.stdout:
        print("SANY failed on", f)
        print(p.stdout[-1500:])
        bad += 1
print("setup: %d spec modules parsed, %d failed" % (len(glob.glob(os.path.join(ROOT, "spec", "*.tla"))), bad))
sys.exit(1 if bad else 0)
