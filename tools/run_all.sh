#!/bin/sh
# runs every claimed quick (or $1) check in sequence; prints one status line per property
tier=${1:-quick}
cd "$(dirname "$0")/.."
for id in $(/venv/bin/python -c "import json;print(' '.join(c['property_id'] for c in json.load(open('MANIFEST.json'))['checks']))"); do
  s=$(date +%s)
  out=$(timeout 3600 /venv/bin/python check.py --property $id --tier $tier 2>&1); rc=$?
  e=$(date +%s)
  echo "$id rc=$rc $((e-s))s $(echo "$out" | grep -c '^VIOLATION') violation(s) | $(echo "$out" | tail -1)"
done
