#!/venv/bin/python
"""Evaluates a seeded change (seeded/<name>/patch.diff + demo.py) against the checks.

  tools/eval_seeded.py seeded/<name> [--props C01,C04 | --all] [--tier quick]

In a scratch worktree of /repo (outside /repo and /verif): confirms that the demonstration passes on the unchanged
tree, applies the patch, confirms that the repository's test-suite still passes and that the demonstration now fails,
then runs the selected checks with VERIF_REPO pointing at the patched worktree.  The worktree is removed afterwards.
Results are merged into seeded/<name>/meta.json under "evaluation".
"""
import argparse
import json
import os
import shutil
import subprocess
import sys
import tempfile
import time

ROOT = os.path.dirname(os.path.dirname(os.path.abspath(__file__)))
PY = "/venv/bin/python"


def sh(cmd, cwd=None, env=None, timeout=3600):
    p = subprocess.run(cmd, cwd=cwd, env=env, stdout=subprocess.PIPE, stderr=subprocess.STDOUT, text=True, timeout=timeout)
    return p.returncode, p.stdout


def main():
    ap = argparse.ArgumentParser()
    ap.add_argument("seed")
    ap.add_argument("--props", default="")
    ap.add_argument("--all", action="store_true")
    ap.add_argument("--tier", default="quick")
    a = ap.parse_args()
    seed = os.path.abspath(a.seed)
    meta_p = os.path.join(seed, "meta.json")
    meta = json.load(open(meta_p)) if os.path.exists(meta_p) else {}
    props = [p for p in a.props.split(",") if p] or ([meta["property"]] if "property" in meta else [])
    if a.all:
        props = ["C%02d" % i for i in range(1, 21)]
    # the demonstrations were written against /tmp/shims (what their authors were given): a copy of /verif/shims
    if not os.path.exists("/tmp/shims"):
        shutil.copytree(os.path.join(ROOT, "shims"), "/tmp/shims")
    base = tempfile.mkdtemp(prefix="mut_", dir=os.environ.get("TMPDIR", "/tmp"))
    wt = os.path.join(base, "repo")
    res = {"at": time.strftime("%Y-%m-%dT%H:%M:%S"), "tier": a.tier, "checks": {}}
    try:
        rc, out = sh(["git", "-C", "/repo", "worktree", "add", "-q", "--detach", wt, "HEAD"])
        if rc:
            print(out)
            return 2
        env = dict(os.environ, PYTHONPATH=wt + os.pathsep + "/tmp/shims_eval", PYTHONDONTWRITEBYTECODE="1", QAPTOOLS_BIN=os.path.join(ROOT, "shims", "qaptools-bin"))
        env["PYTHONPATH"] = wt        # exactly the environment the demonstration was written for
        env.pop("QAPTOOLS_BIN", None)
        demo = os.path.join(seed, "demo.py")
        shutil.copy(demo, os.path.join(wt, "demo.py"))
        for extra in os.listdir(seed):
            if extra.startswith("demo_") or extra.endswith("_helper.py"):
                shutil.copy(os.path.join(seed, extra), os.path.join(wt, extra))
        rc0, o0 = sh([PY, "demo.py"], cwd=wt, env=env, timeout=600)
        res["demo_unchanged_rc"] = rc0
        rc, out = sh(["git", "-C", wt, "apply", os.path.join(seed, "patch.diff")])
        if rc:
            print("patch does not apply:", out)
            res["error"] = "patch does not apply"
            return 2
        rc1, o1 = sh([PY, "demo.py"], cwd=wt, env=env, timeout=600)
        res["demo_patched_rc"] = rc1
        rct, ot = sh([PY, "-m", "pytest", "-q", "-p", "no:cacheprovider", "-x"], cwd=wt, env=dict(env, PYTHONPATH=wt), timeout=900)
        res["tests_patched"] = ot.strip().splitlines()[-2:] if ot.strip() else []
        res["tests_pass"] = (rct == 0 and "75 passed" in ot)
        print("demo unchanged rc=%d, patched rc=%d; tests with patch: %s" % (rc0, rc1, res["tests_patched"]))
        cenv = dict(os.environ, VERIF_REPO=wt)
        for pid in props:
            t0 = time.time()
            rc, out = sh([PY, os.path.join(ROOT, "check.py"), "--property", pid, "--tier", a.tier], cwd=ROOT, env=cenv, timeout=7200)
            viol = [l for l in out.splitlines() if l.startswith("VIOLATION")]
            detail = [l for l in out.splitlines() if l.startswith("  ")][:2]
            res["checks"][pid] = {"rc": rc, "violations": len(viol), "first": (detail[0].strip() if detail else ""), "wall_s": round(time.time() - t0, 1)}
            print("%s rc=%d violations=%d %s" % (pid, rc, len(viol), detail[0].strip()[:200] if detail else ""))
            if rc == 2:
                print(out[-1500:])
    finally:
        sh(["git", "-C", "/repo", "worktree", "remove", "--force", wt])
        shutil.rmtree(base, ignore_errors=True)
        # the evidence files were rewritten by runs against the patched tree: restore the committed ones
        sh(["git", "-C", ROOT, "checkout", "--", "evidence"])
    meta.setdefault("evaluation", []).append(res)
    json.dump(meta, open(meta_p, "w"), indent=1)
    return 0


if __name__ == "__main__":
    sys.exit(main())
