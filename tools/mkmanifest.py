#!/venv/bin/python
"""Regenerates /verif/MANIFEST.json from the table below (keeps it valid at all times)."""
import json
import os

ROOT = os.path.dirname(os.path.dirname(os.path.abspath(__file__)))
ALL = ["C%02d" % i for i in range(1, 21)]

CHECKS = {
 "C01": dict(
  technique="TLC trace validation (TraceCore.tla, invariant Inv_Sat) of executions of the real code on a recording small-prime backend; TLC model checking of the mechanism spec Tracer.tla (Sat / value==wire / booleans) with behaviour-by-behaviour conformance replay (TracerConf.tla)",
  text="Model checking by trace validation: every public call of ~50k generated programs (all operators, assertions, conversions, selection, arrays x operand kinds x value window x guard/ignore modes, random compositions; the same calls after a region was entered and left, incl. through a caught exception) is replayed into spec/TraceCore.tla; TLC evaluates R1CS!Holds for every emitted constraint on the recorded witness after every call. Tracer.tla (mechanism transcription of the integer and fixed-point gadgets) is model checked for the same invariants and every behaviour it prints is replayed into the code; witness, constraints and objects must equal the model's (MODEL-DRIFT otherwise).",
  note="Field-parametric instantiation with small primes (67..32749); TLC arithmetic is native. Trusts TLC, the recorder/driver as observers. Bounded: window -2^b-1..2^b+1, b in 2..6, programs of <= 10 calls.",
  design="5/C01"),
 "C04": dict(
  technique="TLC trace validation (TraceCore.tla, invariant Inv_ValLC) of executions of the real code on a recording small-prime backend",
  text="Model checking by trace validation: after every public call TLC evaluates the wire expression of every returned or in-place changed secret object (and of the active guard and LinComb.ONE) on the recorded witness and compares it with the reported value mod p; includes false-guard and ignore_errors modes.",
  note="Same bounds and trusted base as C01.",
  design="5/C04"),
 "C02": dict(
  technique="TLC exhaustive adversarial-witness search (Soundness.tla, Inv_Unique) over constraint systems captured from the real code in small prime fields",
  text="Model checking: for each value-returning operation (operators, comparisons, checks, bit decomposition, selection incl. lazily evaluated branches, array get/set at a secret index, fixed-point ops; secret/secret, secret/const, const/secret; unguarded and under a true guard) the R1CS the real code emitted is handed to TLC with operands fixed and every wire the call allocated free; TLC enumerates all P values per wire with constraint pruning and checks that every accepted witness yields the honest result and 0/1 for booleans. End-to-end variants fix only the program inputs: sequences of gadgets on one object (also after a false-guard region, also after an exception the program caught) and block-API programs (_if/_elif/_else with conditions as inputs). Exhaustive in the small field.",
  note="Per-operation (composition assumed for programs); fields P=67/257/1031 with no-wrap margin, division-based families in P=13/17; uniform-in-the-field assumption for transfer to 254-bit primes. Known findings (quotient unconstrained; bitwise-with-constant free) are characterised exactly in spec/KnownDeviations.tla and anything outside is reported.",
  design="5/C02"),
 "C03": dict(
  technique="TLC adversarial-witness search (Soundness.tla, Inv_Enforced/Inv_EnforcedFree/Inv_Complete/Inv_SameRel) on captured constraint systems, three-way agreement with PyRef!Rel and observed run-time acceptance",
  text="Model checking: every assertion kind x operand kinds x boundary-straddling values x widths is captured with error checks off and paired with the run-time verdict of the same call; TLC computes the reference relation, searches all completions (unsatisfiable when false, honest witness satisfies when true and accepted, acceptance == relation). A free-operand variant makes the operand wires adversarial too, so one instance covers every operand value of the field. End-to-end sequences assert the same object twice (first inside a false-guard region, or after a region that was left through a caught exception).",
  note="Small prime fields (13, 37, 67, 257); relation on residues for the free-operand variant; per-assertion.",
  design="5/C03"),
 "C05": dict(
  technique="TLC trace validation (TraceRef.tla, Inv_Ref / Inv_NoSpuriousRaise) against a TLA+ reference of Python integer semantics (PyRef.tla)",
  text="Model checking by trace validation: every operator, reflected operator, unary op, check and selection on secret integers/booleans x three operand-kind combinations x the full value window -2^b-1..2^b+1 x bitlengths 2..6 (plus secret booleans next to integers outside {0,1} on either side, and random expression programs, every node judged) is executed on the real code; TLC evaluates the reference value with PyRef and compares, and checks that calls inside the formalised documented domain do not raise.",
  note="Integer shadow values compared exactly; calls whose reference value does not fit TLC's 32-bit integers are skipped (counted). Known findings characterised in KnownDeviations.tla.",
  design="5/C05"),
 "C06": dict(
  technique="TLC trace validation by self-composition (TraceShape.tla, Inv_Shape): runs of one program on different inputs zipped call by call",
  text="Model checking by trace validation: programs are grouped by their text with input values and the ignore_errors switch abstracted; all runs of a group (operand values over the window, valid/invalid under ignore_errors, guard and condition values 0/1, every secret index / exponent / shift count) are zipped against a reference run and TLC compares, per call, the kinds and order of new variables, every constraint with coefficients, and the result wire expressions.",
  note="Bounded to the generated program families (~20k runs quick) in small prime fields; canonical forms come from the independent recorder LC class.",
  design="5/C06"),
 "C07": dict(
  technique="TLC trace validation of zipped unguarded / true-guard / false-guard runs (TraceGuarded.tla) + TraceCore!Inv_Sat on false-guard runs + TraceCF.tla (native control flow) on block-API bodies in dead arms + Soundness.tla search on lazily evaluated selections and on assertions under a true guard",
  text="Model checking by trace validation: every body (operators, assertions, conversions, selection, array reads, fixed point; value window incl. values invalid for the body; seeded multi-call bodies) is run unguarded, under guard 1 and under guard 0 with the condition typed as secret integer, secret boolean and comparison result, nesting depth 2; TLC checks no value-caused raise and full-length execution under the false guard, constraint satisfaction of the false-guard witness, identical outcomes/exception classes/values under the true guard, uniqueness of the selected value when the untaken branch's wires are adversarial, and enforcement of assertions under a true guard. Block-API programs (_if/_elif/_else/_while/_for) whose arms that are not taken divide inexactly, compare out of range or update containers in place must end with the native values.",
  note="Small prime fields (67/257; 13 for the adversarial search of untaken branches). Known finding: division by a zero-valued secret raises under a false guard.",
  design="5/C07"),
 "C08": dict(
  technique="TLC model checking of Guard.tla (mechanism + contract: NestConj, IgnConj, OneBound, TopLevelClean, RestoreOnEnd), inductive-invariant check for histories of any length (GuardInd.tla) + replay of every TLC-generated history into the code + trace validation against Guard.tla (TraceGuard.tla)",
  text="Model checking with conformance: Guard.tla models add_guard/restore_guard/guarded and exception unwinding through guarded regions and user try blocks; TLC checks the contract on it exhaustively, prints every complete history (enter 0/1, leave, raise at any point, rejected entry, try/catch, ignore switches; length<=6, depth<=3 quick), each history is rendered as a program and run on the real code, and the recorded guard triple (values, flags and object identities) is validated step by step against the spec's actions; restore-on-every-exit-path and conjunction nesting are checked on what the code reported. Event sequences of Branching.tla that end in a structural error of the block API are replayed inside try blocks and judged by the same invariants.",
  note="Histories bounded by length/depth (8/4 thorough + simulation to length 14); mismatch in parts of the triple the property does not mention is reported as MODEL-DRIFT, not a violation.",
  design="5/C08"),
 "C09": dict(
  technique="TLC model checking of Branching.tla (merge mechanism of the block API == native execution, every well-nested event sequence) with replay of every closed sequence into the code (BranchConf.tla) + TLC evaluation of a native-control-flow interpreter (NativeCF.tla, TraceCF.tla Inv_CF) against runs of the block API, plus TraceCore and TraceShape on the same runs",
  text="Model checking with conformance: Branching.tla transcribes the context stack, backup, merge-by-selection, nodef bookkeeping and condition chaining next to a native execution; TLC checks equality at depth 0 for all sequences (length<=5 quick / 6 thorough, and length<=7 at depth 1 in the thorough tier), every closed sequence of the first two is replayed through the real API. Trace validation: ~55 structured program texts (if / if-else / if-elif-else, chains of 3 and 4 conditions with and without else under every truth assignment, nesting, Arrays and matrices updated in place, divisions in dead arms, for over a secret bound with public maximum with/without break and bound check, while with public cap and break, compositions) are rendered as block-API calls and run for every input vector of a small window (both condition typings); TLC interprets the same AST natively and compares all final variables, checks no raise inside the domain and refusal of a bound above the maximum, constraint satisfaction / value==wire of the run, and equality of the constraint system across all inputs of one program.",
  note="Bounded program family and input window; the renderer harness/cfdriver.py is trusted as an observer. Relies on fix: commits 7b3a3bb, 395c6f5, 8a8c07c (without them no behaviour of this API exists).",
  design="5/C09"),
 "C14": dict(
  technique="TLC trace validation (TraceFxp.tla, Inv_Fxp/Inv_FxpUn/Inv_FxpNew) against a TLA+ scaled-integer reference (FxpRef.tla)",
  text="Model checking by trace validation: every fixed-point operator x operand kind pair (fixed-point, secret int, secret bool, int, float, public fixed-point) x both orders x all representable values of a window x resolutions 1..3 (plus pow, shifts, unary ops, val() and conversions) is run on the real code; TLC computes the exact representation with FxpRef and compares.",
  note="Only exactly representable floats; representations compared as exact integers (fields large enough that nothing wraps). Known finding: fxp ** n reduces modulo p.",
  design="5/C14"),
 "C15": dict(
  technique="TLC-generated access histories (ArrayMem.tla) replayed into the code and validated against the list-semantics spec (TraceArray.tla); Soundness.tla for bounds enforcement and uniqueness; TraceShape.tla across index values",
  text="Model checking with conformance: ArrayMem.tla specifies Python lists (a 1-D array of length 1..3 next to a second array, a 2x2 and a 3x2 array) with get/set/row actions incl. out-of-range, secret and public index kinds, index OBJECTS (fresh / re-used / shared between row and column) and writes inside an oblivious branch (taken / not taken); TLC enumerates the histories of up to 2 accesses (quick: stratified subset; thorough: all, plus 160k random histories of 3 accesses; the reference itself is model checked at 3 accesses), each is replayed on the real Array, and after every access the outcome, returned value and the contents of all cells reported by the code must equal the spec's; additionally out-of-range indices are unsatisfiable in-circuit, read values/written cells are unique under an adversarial witness, and constraints are identical for all index values.",
  note="Bounded shapes/histories; cells mix secrets and constants; small prime fields.",
  design="5/C15"),
 "C16": dict(
  technique="TLC trace validation (TracePack.tla) against a TLA+ reference of bit decomposition and packers (Pack.tla) + Soundness.tla free-operand search for the enforced width",
  text="Model checking by trace validation: to_bits(n)/from_bits for every width 1..b+2 and the default and every v in -2..2^n+1 at global bitlengths 2..4 (accepted iff 0<=v<2^n at the REQUESTED width, exact bits, round trip); packers over 17 schemas (bool, intmod 2..9, lists, repetitions, nesting, empty) x in-range and out-of-range leaf vectors x plain / secret-int / secret-bool inputs (bitlen, pack bits, unpack round trip, rejection of out-of-range plain values) judged by TLC with Pack.tla; the width actually enforced in-circuit by to_bits(n) / assert_positive(bits=n) is decided by adversarial search with free operands.",
  note="Finite schema list and leaf windows; structured values compared as leaf sequences.",
  design="5/C16"),
 "C17": dict(
  technique="TLC evaluation of SnarkDeco.tla (Inv_Pub, Inv_Inner, Inv_Ret, Inv_Kw) on the ordered public vector recorded per decorated call + Soundness.tla search tying outputs to computed wires",
  text="Model checking by trace validation: ~650 decorated calls (1-3 arguments from 12 structure shapes incl. ints, floats, bools, strings, lists, tuples, dicts, nesting, empty; 5 bodies; sequences of 3 calls in one run; keyword arguments) are run on the real code; TLC derives from the argument and result leaf sequences the exact ordered list of public values that must have been appended during the call and compares, checks what the body saw, what the caller got back and the refusal of keyword arguments; output wires are shown to be forced to the computed values by adversarial search with the argument wires fixed.",
  note="Finite shape list; exactly representable floats.",
  design="5/C17"),
 "C13": dict(
  technique="TLC model checking of LinAlg.tla (Hom, Immutable) + replay of TLC-generated operation histories on each backend's LC class validated by TraceLinAlg.tla; FieldFacts.tla decides moduli and inverses with exact limb arithmetic (BigNat.tla) from quotient certificates",
  text="Model checking with conformance: LinAlg.tla models a pool of linear combinations built by add/sub/neg/scale (scalars 0,1,-1,2,p-1,p,p+1); TLC checks homomorphism and immutability on the model and prints every history of 2 operations (5760) plus ~6000 simulated histories of 5 operations; each is replayed on the LC class of snarkjs, zkinterface (bn128, bls12-381, curve25519 configurations), qaptools and the harness recorder, and after every operation the canonical term maps of ALL pool objects (result, operands, shared one/zero) must equal the spec's pool. The reported modulus is compared limb-wise with the curve orders in CurveOrders.tla and fieldinverse is checked for 25 positive, negative and unreduced arguments per backend by the exact integer identity |x|*inv = 1 + k*p.",
  note="Coefficients stay small because scalars are s + t*p; primality of the curve-order constants is checked once by sympy in setup_cmd, not by TLC; flatbuffers import shim and qaptools stub binaries are used to load the backends.",
  design="5/C13"),
 "C10": dict(
  technique="TLC evaluation of SnarkjsFile.tla (WellFormed, Canonical, FaithfulCircuit, FaithfulWitness, FileSat) on independently decoded circuit.r1cs / witness.wtns, small-prime instantiation + bn128 with BigNat limb arithmetic and quotient certificates; byte-level conformance with the writer's mechanism spec SnarkjsWriter.tla",
  text="Model checking by trace validation of artefacts: ~190 programs (random compositions in all guard/ignore modes, every operator with mixed signs, witness classes negative / >= p / wider than 256 bit, zero coefficients, empty linear combinations, empty circuit) run on the real pysnark.snarkjsbackend with the modulus rebound to 251, and ~45 at the real bn128 prime; prove() writes the files in a scratch directory, an independent parser decodes them, and TLC decides container well-formedness (magic, version, section table, declared sizes vs content, counts), canonicity of every element, equality (as multisets with multiplicity) with what the library handed to the backend interface (recorded by a spy) under the wire numbering one/public/private, and satisfaction of the decoded constraints by the decoded witness. SnarkjsWriter.tla predicts both files byte for byte from the traced system (difference = MODEL-DRIFT).",
  note="nLabels and the nPubOut/nPubIn/nPrvIn split are not judged; certificates are harness-supplied, the integer identities are TLC's.",
  design="5/C10"),
 "C11": dict(
  technique="TLC evaluation of ZkifFile.tla (Framing, Header, Constraints, Witness, FileSat, CircuitIndependent) on zkinterface files decoded by an independent FlatBuffers reader; small prime via set_modulus + three curve orders with BigNat limb arithmetic",
  text="Model checking by trace validation of artefacts: the C10 program families run on pysnark.zkinterface.backend over p=251 (public set_modulus) and in the bn128, bls12-381 and curve25519 configurations; computation.zkif and circuit.zkif are decoded by a reader written against zkinterface.fbs; TLC decides framing (size prefixes, message types per file, NO witness message in circuit.zkif), header (instance ids 1..n with canonical values, free_variable_id, field_maximum = p-1), constraint faithfulness and canonicity, witness ids/values, satisfaction of decoded constraints, and byte-identity of circuit.zkif between twin runs with equal public and different private values.",
  note="The upstream flatbuffers package is absent: pysnark's builder calls run against shims/flatbuffers (documented wire format); the reader shares no code with it. Certificates harness-supplied, identities decided by TLC.",
  design="5/C11"),
 "C18": dict(
  technique="TLC model checking of ExitHook.tla (mechanism of atexitmaybe/final + contract Inv_Exit) whose behaviours enumerate every configuration; one fresh interpreter per configuration, observations judged by TraceExit.tla",
  text="Model checking with conformance (exhaustive product): ExitHook.tla models the interposed sys.exit / sys.excepthook, the atexit hook and CPython's exit statuses for an optional earlier sys.exit call that did not end the process (caught, or overridden in a finally clause) x 12 ways of terminating at 3 positions with autoprove on/off; TLC checks the contract on the model (the SystemExit bypass paths are its only counterexamples) and prints every finished behaviour; each becomes one script run in a fresh interpreter per file-writing backend (snarkjs, zkinterface, qaptools); exit status, presence and decoded size of the artefacts vs what had been traced, number of proving steps and hook errors are judged by TLC against the contract and compared with the model's prediction.",
  note="Known findings: raise SystemExit(n!=0) / builtin exit(n!=0) still prove; a caught sys.exit(n!=0) leaves a stale failure code (successful run not proved). qaptools executables are failing stubs (artefact = schedule + per-function equation files written by the backend's own splitting step).",
  design="5/C18", category="model_checking"),
 "C19": dict(
  technique="TLC model checking of Select.tla (transcribed three-stage selection + contract) whose states enumerate every configuration; one fresh interpreter per configuration, outcomes judged by TraceSelect.tla",
  text="Model checking with conformance (exhaustive product): Select.tla holds the registry, the selection mechanism and the contract (pre-import wins; known name selects or fails loudly; unknown name reported then auto-detection in registry order; reported name identifies module and field); TLC checks the contract on the mechanism and enumerates configurations (pre-imports: none/each single backend, ordered pairs in thorough; PYSNARK_BACKEND: 8 names, unset, unknown; 8 subsets of optional dependencies); each is run in a fresh interpreter, reporting name, module, modulus, interface attributes, messages and the module whose constraint list grows; TLC judges contract, interface completeness and sink.",
  note="libsnark / flatbuffers are import-only stand-ins and qaptools executables stubs: only selection is judged. IPython branch not exercised. Known finding: specific backend modules are reported under their generic name.",
  design="5/C19", category="model_checking"),
 "C20": dict(
  technique="TLC evaluation of a TLA+ Poseidon / subset-sum reference (Poseidon.tla, TraceHash.tla) on recorded gadget runs over a small prime; PoseidonDesign.tla for padding injectivity; HashFacts.tla for published vectors (limb comparison) and parameter selection per interpreter",
  text="Model checking by trace validation: the traced permutation and sponge are run on the recording backend over P=32749 with the real parameter tables (bn128 set, bls12-381 set, toy set; TLC reduces the constants mod P itself) for all/sampled inputs in {0,1,2}^k up to 3 blocks, random field elements and boolean / fixed-point typed inputs, and TLC recomputes every output with Poseidon.tla; constraint counts are equal across inputs of a class; subset-sum over all bit vectors up to length 6 with independently derived SHA-512 coefficients; padding injectivity is model checked on the spec for 1.2M message pairs; the published x5_254_5 / x5_255_5 permutation vectors are reproduced on the real zkinterface / bellman configurations; 18 selection paths (environment, pre-import, auto-detection) each in a fresh interpreter are judged for the parameter set in use.",
  note="Reference parameters are the repository's tables as data; no published vector exists for the curve25519 set; known finding: parameters follow the generic name when a specific zkinterface module is pre-imported (C19).",
  design="5/C20"),
 "C12": dict(
  technique="TLC model checking of QapCtx.tla (call-context mechanism: unique call ids and block names, glue shape, split sees every equation) with replay of its histories (QapConf.tla) + TLC evaluation of Qap.tla (EqSat, PubLinked, OneContext, FnFilesLocal, SplitComplete, SameFn, Glue) on the qaptools text files parsed by an independent reader, one interpreter per call history, small-prime instantiation",
  text="Model checking with conformance: QapCtx.tla transcribes per-context counters, call naming, argument/result copies, glue blocks and flush points; its closed histories are replayed and ids, blocks, glue records and equation counts found in the files compared with the prediction. Trace validation of artefacts: call histories (main only; nested calls with identical outer and different inner bodies; duplicate assertions; a sub-circuit called 1-3 times; two different bodies under one name; equal bodies; nested sub-circuits; structured arguments/results; a comparison inside a sub-circuit; closures over a secret/public caller wire, also from a nested call) x value pairs incl. negatives run on pysnark.qaptools.backend over p=251 with failing stub executables; TLC decides that every equation holds on the wire and I/O values, every public value is listed and linked, every equation stays in one context or the mix is reported and the split not completed, no per-function file names a wire of another context, the per-function files written by the backend's own splitting step contain exactly the normalised equations and blocks of a call, calls of one name have equal circuits and digests or the inconsistency is reported, and every call is glued by paired blocks of equal length with pairwise equal values and a shared rnd1 listing all arguments and results.",
  note="External qaptools binaries are stubs that fail: key generation / proving itself is not exercised. Known finding: the global constant one inside a sub-circuit mixes contexts.",
  design="5/C12"),
}

NOT_YET = "check not built yet in this round (planned, see DESIGN.md section 5)"


def main():
    checks = []
    for pid in ALL:
        if pid not in CHECKS:
            continue
        c = CHECKS[pid]
        checks.append({
            "property_id": pid,
            "quick_cmd": "/venv/bin/python /verif/check.py --property %s --tier quick" % pid,
            "thorough_cmd": "/venv/bin/python /verif/check.py --property %s --tier thorough" % pid,
            "evidence_file": "/verif/evidence/%s.json" % pid,
            "replay_cmd_template": "/venv/bin/python /verif/check.py --replay {path}",
            "engine": c.get("engine", "tlc"),
            "level_claimed": {"category": c.get("category", "model_checking"), "text": c["text"], "design_ref": "DESIGN.md section " + c["design"]},
            "level_note": c["note"],
            "technique": c["technique"],
        })
    fixed = json.load(open(os.path.join(ROOT, "known_findings.json")))["fixed"]
    m = {
        "version": 1,
        "setup_cmd": "/venv/bin/python /verif/tools/setup_check.py",
        "hooks": {
            "guard": "PYSNARK_VERIF",
            "enable": "none needed: observation is through the backend interface (a recording backend module is placed in sys.modules before pysnark.runtime is imported); no hook commits exist",
            "baseline_off_cmd": "cd /repo && /venv/bin/python -m pytest -ra -q -p no:cacheprovider --timeout=900 --continue-on-collection-errors",
            "source_commits": [],
            "add_only": True,
        },
        "engines": [
            {"name": "tlc", "path": "/usr/local/bin/tlc", "serves_properties": sorted(CHECKS),
             "kind_free_text": "TLC 1.8 explicit-state model checker: trace validation of recorded executions, adversarial witness search on captured constraint systems, exhaustive exploration of mechanism specifications whose behaviours are replayed into the code"},
        ],
        "checks": checks,
        "notes": "fix: commits in /repo (unguarded repairs of genuine defects): " + "; ".join(fixed),
        "not_applicable": [{"property_id": p, "reason": NOT_YET} for p in ALL if p not in CHECKS],
    }
    with open(os.path.join(ROOT, "MANIFEST.json"), "w") as f:
        json.dump(m, f, indent=1)
    print("MANIFEST.json: %d checks, %d not claimed" % (len(checks), len(m["not_applicable"])))


if __name__ == "__main__":
    main()
