#!/bin/sh
# tools/adopt_seed2.sh Cxx : adopt a two-change delivery (patchA/demoA/notesA -> seeded/Cxx-f, patchB/... -> seeded/Cxx-g)
id=$1; src=/tmp/wt/$id
for pair in "A f" "B g"; do
  set -- $pair; X=$1; suf=$2; dst=/verif/seeded/$id-$suf
  [ -f $src/patch$X.diff ] && [ -f $src/demo$X.py ] || { echo "missing $X for $id"; continue; }
  mkdir -p $dst && cp $src/patch$X.diff $dst/patch.diff && cp $src/demo$X.py $dst/demo.py && cp $src/notes$X.md $dst/notes.md 2>/dev/null
  for f in $src/*_helper.py $src/demo_*.py; do [ -f "$f" ] && cp $f $dst/; done
  [ -f $dst/meta.json ] || /venv/bin/python -c "
import json,os
json.dump({'property': '$id', 'origin': 'independent sub-agent given only the property text and a scratch worktree of /repo (round 6: two changes per agent, no hints)', 'needs': open('$dst/notes.md').read() if os.path.exists('$dst/notes.md') else ''}, open('$dst/meta.json','w'), indent=1)"
  echo adopted $dst
done
