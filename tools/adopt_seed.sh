#!/bin/sh
# tools/adopt_seed.sh Cxx [suffix]: copy a sub-agent's deliverables from its scratch worktree into seeded/<id>-<suffix>/
id=$1; suf=${2:-a}; src=/tmp/wt/$id; dst=/verif/seeded/$id-$suf
mkdir -p $dst && cp $src/patch.diff $src/demo.py $dst/ && cp $src/notes.md $dst/notes.md 2>/dev/null
for f in $src/demo_*.py $src/*_helper.py; do [ -f "$f" ] && cp $f $dst/; done
[ -f $dst/meta.json ] || /venv/bin/python -c "
import json,sys
json.dump({'property': '$id', 'origin': 'independent sub-agent given only the property text and a scratch worktree of /repo', 'needs': open('$dst/notes.md').read() if __import__('os').path.exists('$dst/notes.md') else ''}, open('$dst/meta.json','w'), indent=1)"
echo adopted $dst
