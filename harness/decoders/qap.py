"""Independent parser of the text files pysnark.qaptools.backend writes (equations, wire values, I/O values, schedule,
per-function equation files).  Parses only; judgements are TLA+ predicates (Qap.tla)."""


def split_name(n):
    ctx, sep, loc = n.partition("/")
    return {"ctx": ctx if sep else "", "loc": loc if sep else n, "full": n}


def parse_lc(toks, small):
    if len(toks) % 2:
        raise ValueError("odd linear combination: %r" % (toks,))
    out = []
    for i in range(0, len(toks), 2):
        out.append({"c": enc(int(toks[i]), small), "n": split_name(toks[i + 1])})
    return out


def enc(v, small):
    """small-prime runs: plain ints; otherwise signed limbs"""
    if small:
        return v
    a, l = abs(v), []
    while a:
        l.append(a & 255)
        a >>= 8
    return {"neg": v < 0, "abs": l}


def parse_eq_line(ln, small):
    """'<A> * <B> = <C> .'  or the linear form '* = <C>' (A and B empty, no final dot)"""
    toks = ln.split()
    dot = bool(toks) and toks[-1] == "."
    if dot:
        toks = toks[:-1]
    star, eq = toks.index("*"), toks.index("=")
    return {"t": "eq", "a": parse_lc(toks[:star], small), "b": parse_lc(toks[star + 1:eq], small), "c": parse_lc(toks[eq + 1:], small), "dot": dot}


def parse_eqs(path, small=True):
    items = []
    for raw in open(path):
        ln = raw.strip()
        if not ln or ln.startswith("#"):
            continue
        toks = ln.split()
        if toks[0] == "[function]":
            items.append({"t": "fn", "fname": toks[1], "call": toks[2]})
        elif toks[0] == "[ioblock]":
            # the per-function files omit the context: "[ioblock] <bn> <wires...>"
            items.append({"t": "ioblock", "raw": toks[1:]})
        elif toks[0] == "[glue]":
            items.append({"t": "glue", "c1": toks[1], "b1": toks[2], "c2": toks[3], "b2": toks[4]})
        elif toks[0] == "[external]":
            items.append({"t": "external", "raw": toks[1:]})
        else:
            items.append(parse_eq_line(ln, small))
    return items


def parse_values(path):
    d = {}
    for raw in open(path):
        ln = raw.strip()
        if not ln or ln.startswith("#"):
            continue
        k, _, v = ln.partition(":")
        d[k.strip()] = int(v.strip())
    return d


def parse_schedule(path):
    out = []
    for raw in open(path):
        toks = raw.strip().split()
        if toks:
            out.append(toks)
    return out
