"""Independent reader of zkinterface files (sequence of size-prefixed FlatBuffers messages), written against
pysnark/zkinterface/zkinterface.fbs and the FlatBuffers wire format.  Parses only; every judgement is TLC's."""
import struct


class FormatError(Exception):
    pass


def u16(b, p): return struct.unpack_from("<H", b, p)[0]
def u32(b, p): return struct.unpack_from("<I", b, p)[0]
def i32(b, p): return struct.unpack_from("<i", b, p)[0]
def u64(b, p): return struct.unpack_from("<Q", b, p)[0]


class Tab:
    """A table at absolute position pos inside message bytes b."""

    def __init__(self, b, pos):
        if pos < 0 or pos + 4 > len(b):
            raise FormatError("table position out of range")
        self.b, self.pos = b, pos
        self.vt = pos - i32(b, pos)
        if self.vt < 0 or self.vt + 4 > len(b):
            raise FormatError("vtable out of range")
        self.vtsize = u16(b, self.vt)
        self.objsize = u16(b, self.vt + 2)
        if self.vtsize < 4 or self.vtsize % 2 or self.vt + self.vtsize > len(b):
            raise FormatError("bad vtable size")

    def field(self, idx):
        """absolute position of field idx, or None if absent"""
        o = 4 + 2 * idx
        if o >= self.vtsize:
            return None
        off = u16(self.b, self.vt + o)
        if off == 0:
            return None
        if off >= self.objsize + 0 and self.objsize:
            if off > self.objsize:
                raise FormatError("field offset beyond object")
        return self.pos + off

    def scalar(self, idx, rd, default=0):
        p = self.field(idx)
        return default if p is None else rd(self.b, p)

    def indirect(self, idx):
        p = self.field(idx)
        if p is None:
            return None
        t = p + u32(self.b, p)
        if t >= len(self.b):
            raise FormatError("offset out of range")
        return t

    def table(self, idx):
        t = self.indirect(idx)
        return None if t is None else Tab(self.b, t)

    def vec(self, idx, elsize):
        """(count, absolute start of elements) or None"""
        t = self.indirect(idx)
        if t is None:
            return None
        n = u32(self.b, t)
        if t + 4 + n * elsize > len(self.b):
            raise FormatError("vector beyond buffer")
        return n, t + 4


def variables(t):
    if t is None:
        return {"present": False, "ids": [], "raw": b"", "nvals": 0}
    ids = t.vec(0, 8)
    vals = t.vec(1, 1)
    idl = [u64(t.b, ids[1] + 8 * k) for k in range(ids[0])] if ids else []
    raw = bytes(t.b[vals[1]:vals[1] + vals[0]]) if vals else b""
    return {"present": True, "ids": idl, "raw": raw, "nvals": len(raw), "has_info": t.field(2) is not None}


def split_values(v):
    """element size = values.length / variable_ids.length (zkinterface.fbs)"""
    n = len(v["ids"])
    if n == 0:
        return [], 0, len(v["raw"]) == 0
    sz, rem = divmod(len(v["raw"]), n)
    return [v["raw"][k * sz:(k + 1) * sz] for k in range(n)], sz, rem == 0


MSG = {0: "NONE", 1: "CircuitHeader", 2: "ConstraintSystem", 3: "Witness", 4: "Command"}


def read_file(path):
    data = open(path, "rb").read()
    msgs = []
    pos = 0
    while pos < len(data):
        if pos + 4 > len(data):
            raise FormatError("truncated size prefix")
        size = u32(data, pos)
        body = data[pos + 4:pos + 4 + size]
        if len(body) != size:
            raise FormatError("message shorter than its size prefix")
        root = Tab(body, u32(body, 0))
        mtype = root.scalar(0, lambda b, p: b[p], 0)
        m = {"type": MSG.get(mtype, "?%d" % mtype), "size": size, "offset": pos}
        t = root.table(1)
        if t is None:
            raise FormatError("root without message")
        if m["type"] == "CircuitHeader":
            m["instance"] = variables(t.table(0))
            m["free_variable_id"] = t.scalar(1, u64, 0)
            fm = t.vec(2, 1)
            m["field_maximum"] = bytes(t.b[fm[1]:fm[1] + fm[0]]) if fm else b""
            m["has_configuration"] = t.field(3) is not None
        elif m["type"] == "Witness":
            m["assigned"] = variables(t.table(0))
        elif m["type"] == "ConstraintSystem":
            cv = t.vec(0, 4)
            cons = []
            if cv:
                for k in range(cv[0]):
                    p = cv[1] + 4 * k
                    ct = Tab(t.b, p + u32(t.b, p))
                    cons.append([variables(ct.table(0)), variables(ct.table(1)), variables(ct.table(2))])
            m["constraints"] = cons
        msgs.append(m)
        pos += 4 + size
    return {"messages": msgs, "length": len(data), "bytes": data}
