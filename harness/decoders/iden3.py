"""Independent decoder of the iden3 binary formats written for snarkjs (.r1cs, .wtns).  Parses only: it reports what is in
the file (declared numbers next to what was actually found); every judgement is a TLA+ predicate (SnarkjsFile.tla)."""
import struct


def u32(b, p): return struct.unpack_from("<I", b, p)[0]
def u64(b, p): return struct.unpack_from("<Q", b, p)[0]


def sections(b):
    """Generic container: magic(4) version(u32) nsections(u32) then [type u32, size u64, payload]*"""
    out = {"magic": list(b[0:4]), "version": u32(b, 4) if len(b) >= 8 else -1, "nsections": u32(b, 8) if len(b) >= 12 else -1,
           "sections": [], "filelen": len(b), "truncated": False}
    pos = 12
    while pos < len(b):
        if pos + 12 > len(b):
            out["truncated"] = True
            break
        ty, sz = u32(b, pos), u64(b, pos + 4)
        payload = b[pos + 12:pos + 12 + sz]
        out["sections"].append({"type": ty, "size": sz if sz < (1 << 30) else -1, "have": len(payload), "payload": payload})
        pos += 12 + sz
    out["consumed"] = min(pos, len(b)) if not out["truncated"] else pos
    out["trailing"] = max(0, len(b) - pos) if pos <= len(b) else 0
    out["overrun"] = pos > len(b)
    return out


def limbs(bs):
    return list(bs)


def read_r1cs(path):
    b = open(path, "rb").read()
    c = sections(b)
    r = {"magic": c["magic"], "version": c["version"], "nsections": c["nsections"], "nfound": len(c["sections"]),
         "types": [s["type"] for s in c["sections"]], "sizes": [s["size"] for s in c["sections"]], "haves": [s["have"] for s in c["sections"]],
         "trailing": c["trailing"], "overrun": c["overrun"] or c["truncated"], "header": None, "constraints": [], "consparsed": -1, "labels": -1, "labelbytes": -1}
    n8 = 32
    for s in c["sections"]:
        p = s["payload"]
        if s["type"] == 1 and len(p) >= 4:
            n8 = u32(p, 0)
            if len(p) >= 4 + n8 + 24:
                q = 4 + n8
                r["header"] = {"n8": n8, "prime": limbs(p[4:4 + n8]), "nwires": u32(p, q), "npubout": u32(p, q + 4), "npubin": u32(p, q + 8),
                               "nprvin": u32(p, q + 12), "nlabels": u64(p, q + 16) % (1 << 30), "ncons": u32(p, q + 24), "len": len(p), "expectlen": 4 + n8 + 28}
    for s in c["sections"]:
        p = s["payload"]
        if s["type"] == 2:
            pos, cons, ok = 0, [], True
            ncons = r["header"]["ncons"] if r["header"] else 0
            for _ in range(ncons):
                con = []
                for _lc in range(3):
                    if pos + 4 > len(p):
                        ok = False
                        break
                    nt = u32(p, pos)
                    pos += 4
                    lc = []
                    for _t in range(nt):
                        if pos + 4 + n8 > len(p):
                            ok = False
                            break
                        lc.append({"w": u32(p, pos), "c": limbs(p[pos + 4:pos + 4 + n8])})
                        pos += 4 + n8
                    con.append(lc)
                if not ok:
                    break
                cons.append(con)
            r["constraints"] = cons
            r["consparsed"] = pos if ok else -1      # bytes the constraints occupy
        elif s["type"] == 3:
            r["labelbytes"] = len(p)
            r["labels"] = len(p) // 8
    return r


def read_wtns(path):
    b = open(path, "rb").read()
    c = sections(b)
    r = {"magic": c["magic"], "version": c["version"], "nsections": c["nsections"], "nfound": len(c["sections"]),
         "types": [s["type"] for s in c["sections"]], "sizes": [s["size"] for s in c["sections"]], "haves": [s["have"] for s in c["sections"]],
         "trailing": c["trailing"], "overrun": c["overrun"] or c["truncated"], "header": None, "values": [], "valbytes": -1}
    n8 = 32
    for s in c["sections"]:
        p = s["payload"]
        if s["type"] == 1 and len(p) >= 4:
            n8 = u32(p, 0)
            if len(p) >= 4 + n8 + 4:
                r["header"] = {"n8": n8, "prime": limbs(p[4:4 + n8]), "nwitness": u32(p, 4 + n8), "len": len(p), "expectlen": 4 + n8 + 4}
    for s in c["sections"]:
        p = s["payload"]
        if s["type"] == 2:
            r["valbytes"] = len(p)
            r["values"] = [limbs(p[i:i + n8]) for i in range(0, len(p) - len(p) % n8, n8)]
    return r
