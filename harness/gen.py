"""Program generators (op-record programs for harness.driver).

Operand descriptors: ("S",v) secret int, ("U",v) public int, ("K",v) ConstVal, ("c",v) plain int,
("SB",v) secret bool, ("UB",v) public bool, ("cb",v) plain bool, ("F",[num,den]) secret fixed point,
("UF",[num,den]) public fixed point, ("f",[num,den]) plain float.
Modes: "plain", "ign" (user ignore_errors), "g1" / "g0" (inside guarded(secret 1/0)),
"g1ign", "g0ign", "g11", "g10", "g01" (nested guards outer,inner).
"""
import itertools
import random

BIN_ARITH = ["add", "sub", "mul", "truediv", "floordiv", "mod", "divmod", "pow", "lshift", "rshift", "and", "or", "xor"]
BIN_CMP = ["eq", "ne", "lt", "le", "gt", "ge"]
UN = ["neg", "pos", "abs", "invert"]
ASSERT2 = ["assert_eq", "assert_ne", "assert_lt", "assert_le", "assert_gt", "assert_ge"]
CHECK1 = ["check_zero", "check_nonzero", "check_positive"]
ASSERT1 = ["assert_zero", "assert_nonzero", "assert_positive"]

MODES_ALL = ["plain", "ign", "g1", "g0", "g1ign", "g0ign", "g11", "g10", "g01"]


def new_step(kind, v):
    k = {"S": ("priv", "int"), "U": ("pub", "int"), "K": ("const", "int"), "SB": ("priv", "bool"), "UB": ("pub", "bool"),
         "F": ("priv", "fxp"), "UF": ("pub", "fxp"), "KF": ("const", "fxp"), "KB": ("const", "bool")}[kind]
    if k[1] == "fxp" and isinstance(v, (list, tuple)):
        v = {"f": list(v)}
    return {"op": "new", "kind": k[0], "ty": k[1], "v": v}


class Builder:
    """Builds a program: secrets are created first, then the body (possibly inside guards)."""

    def __init__(self, pid, mode="plain", cfg=None, meta=None):
        self.pid = pid
        self.mode = mode
        self.pre = []
        self.body = []
        self.nreg = 0
        self.cfg = cfg or {}
        self.meta = meta or {}

    def opnd(self, desc):
        kind, v = desc
        if kind == "c":
            return {"c": v}
        if kind == "cb":
            return {"b": bool(v)}
        if kind == "f":
            return {"f": list(v)}
        if kind == "r":
            return {"r": v}
        self.pre.append(new_step(kind, v))
        self.nreg += 1
        return {"r": self.nreg - 1}

    def add(self, step):
        self.body.append(step)
        return step

    GUARDS = {"plain": [], "ign": [], "g1": [1], "g0": [0], "g1ign": [1], "g0ign": [0],
              "g11": [1, 1], "g10": [1, 0], "g01": [0, 1], "g00": [0, 0]}

    @classmethod
    def body_base(cls, npre, mode, style="lc"):
        """Register index of the first body step."""
        per = 2 if style == "cmp" else 1
        return npre + per * len(cls.GUARDS[mode])

    def build(self, style="lc"):
        """style: how guard conditions are typed: "lc" secret integer 0/1, "bool" secret boolean,
        "cmp" result of a comparison (secret > 0)."""
        mode = self.mode
        ign = mode in ("ign", "g1ign", "g0ign")
        guards = self.GUARDS[mode]
        steps = list(self.pre)
        n = self.nreg
        conds = []
        for gv in guards:
            if style == "bool":
                steps.append(dict(new_step("SB", gv), tag="cond"))
                conds.append(n)
                n += 1
            elif style == "cmp":
                steps.append(dict(new_step("S", gv), tag="cond"))
                steps.append({"op": "bin", "name": "gt", "a": {"r": n}, "b": {"c": 0}, "tag": "cond"})
                conds.append(n + 1)
                n += 2
            else:
                steps.append(dict(new_step("S", gv), tag="cond"))
                conds.append(n)
                n += 1
        wrapped = self.body
        for c in reversed(conds):
            wrapped = [{"op": "guarded", "cond": {"r": c}, "body": wrapped}]
        steps += wrapped
        return {"id": self.pid, "ign": ign, "steps": steps, "cfg": self.cfg,
                "meta": dict(self.meta, mode=mode, npre=len(self.pre), ng=len(guards), nbody=len(self.body), style=style)}


def window(b, extra=1):
    m = (1 << b) + extra
    return list(range(-m, m + 1))


def kinds3():
    return [("S", "S"), ("S", "c"), ("c", "S")]


def binop_programs(prefix, ops, pairs, kinds, modes, cfg=None):
    out = []
    for op in ops:
        for (ka, kb) in kinds:
            for (a, b) in pairs:
                for mode in modes:
                    B = Builder("%s/%s/%s%s/%d,%d/%s" % (prefix, op, ka, kb, a, b, mode), mode, cfg,
                                {"op": op, "kinds": ka + kb, "a": a, "b": b})
                    ra, rb = B.opnd((ka, a)), B.opnd((kb, b))
                    B.add({"op": "bin", "name": op, "a": ra, "b": rb, "tag": "main"})
                    out.append(B.build())
    return out


def unop_programs(prefix, ops, vals, modes, kinds=("S",), cfg=None):
    out = []
    for op in ops:
        for k in kinds:
            for a in vals:
                for mode in modes:
                    B = Builder("%s/%s/%s/%d/%s" % (prefix, op, k, a, mode), mode, cfg, {"op": op, "kinds": k, "a": a})
                    ra = B.opnd((k, a))
                    B.add({"op": "un", "name": op, "a": ra, "tag": "main"})
                    out.append(B.build())
    return out


def meth_programs(prefix, names, vals, modes, kind="S", args=(), kw=None, cfg=None, argkinds=None):
    """names applied to one object; args: list of operand descriptor lists to try (product)."""
    out = []
    for nm in names:
        for a in vals:
            for argv in (itertools.product(*args) if args else [()]):
                for mode in modes:
                    B = Builder("%s/%s/%s/%d/%s/%s" % (prefix, nm, kind, a, ",".join(x[0] + str(x[1]) for x in argv), mode), mode, cfg,
                                {"op": nm, "kinds": kind, "a": a, "args": [x[1] for x in argv]})
                    ra = B.opnd((kind, a))
                    st = {"op": "meth", "name": nm, "a": ra, "args": [B.opnd(x) for x in argv], "tag": "main"}
                    if kw:
                        st["kw"] = {k: {"c": v} for k, v in kw.items()}
                    B.add(st)
                    out.append(B.build())
    return out


def ite_programs(prefix, vals, modes, cfg=None):
    out = []
    for c in (0, 1):
        for (t, f) in vals:
            for (kt, kf) in (("S", "S"), ("S", "c"), ("c", "S")):
                for mode in modes:
                    B = Builder("%s/ite/%d/%s%s/%d,%d/%s" % (prefix, c, kt, kf, t, f, mode), mode, cfg, {"op": "ite", "c": c, "t": t, "f": f})
                    rc = B.opnd(("SB", c))
                    rt_, rf = B.opnd((kt, t)), B.opnd((kf, f))
                    B.add({"op": "ite", "cond": rc, "t": rt_, "f": rf, "tag": "main"})
                    out.append(B.build())
    return out


# ---------------------------------------------------------------- random straight-line programs
class RandGen:
    """Seeded random compositions over int / bool / fxp registers.  Values are kept small so that most
    calls stay inside the documented domain; a call that raises simply ends the 'no raise' antecedent."""

    def __init__(self, seed, b, res=1):
        self.rnd = random.Random(seed)
        self.b = b
        self.res = res

    def program(self, pid, depth, mode="plain", fxp=False, cfg=None):
        rnd = self.rnd
        B = Builder(pid, mode, cfg, {"kind": "random"})
        lim = max(1, (1 << (self.b - 1)) - 1)
        regs = []   # (index, kind)
        nsec = rnd.randint(2, 4)
        for _ in range(nsec):
            t = rnd.random()
            if t < 0.15:
                B.opnd(("SB", rnd.randint(0, 1)))
                regs.append((B.nreg - 1, "bool"))
            elif fxp and t < 0.45:
                B.opnd(("F", [rnd.randint(-lim, lim) * 2 + rnd.randint(0, 1), 2]))
                regs.append((B.nreg - 1, "fxp"))
            else:
                B.opnd((rnd.choice(["S", "S", "U"]), rnd.randint(-lim, lim)))
                regs.append((B.nreg - 1, "int"))
        # body registers are numbered after pre registers and guard conds / compound markers:
        ng = {"plain": 0, "ign": 0, "g1": 1, "g0": 1, "g1ign": 1, "g0ign": 1, "g11": 2, "g10": 2, "g01": 2}[mode]
        nxt = B.nreg + ng
        for _ in range(depth):
            ints = [r for r in regs if r[1] == "int"]
            bools = [r for r in regs if r[1] == "bool"]
            fx = [r for r in regs if r[1] == "fxp"]
            choice = rnd.random()

            def pick_int():
                if ints and rnd.random() < 0.8:
                    return {"r": rnd.choice(ints)[0]}
                return {"c": rnd.randint(-2, 3)}
            if fx and choice < 0.25:
                op = rnd.choice(["add", "sub", "mul", "lt", "ge", "eq", "truediv", "floordiv", "mod"])
                a = {"r": rnd.choice(fx)[0]}
                other = rnd.choice([{"r": rnd.choice(fx)[0]}, pick_int(), {"f": [rnd.randint(-3, 3), 2]}])
                if rnd.random() < 0.3:
                    a, other = other, a
                B.add({"op": "bin", "name": op, "a": a, "b": other})
                regs.append((nxt, "bool" if op in BIN_CMP else "fxp"))
            elif bools and choice < 0.4:
                op = rnd.choice(["and", "or", "xor", "inv", "ite", "add", "mul"])
                a = {"r": rnd.choice(bools)[0]}
                if op == "inv":
                    B.add({"op": "un", "name": "invert", "a": a})
                    regs.append((nxt, "bool"))
                elif op == "ite" and ints:
                    B.add({"op": "ite", "cond": a, "t": pick_int(), "f": {"r": rnd.choice(ints)[0]}})
                    regs.append((nxt, "int"))
                elif op in ("add", "mul"):
                    B.add({"op": "bin", "name": op, "a": a, "b": pick_int()})
                    regs.append((nxt, "int"))
                else:
                    o = {"r": rnd.choice(bools)[0]} if rnd.random() < 0.7 else {"b": bool(rnd.randint(0, 1))}
                    B.add({"op": "bin", "name": op if op in ("and", "or", "xor") else "and", "a": a, "b": o})
                    regs.append((nxt, "bool"))
            elif ints:
                op = rnd.choice(BIN_ARITH + BIN_CMP + BIN_CMP + ["neg", "abs", "check_zero", "check_positive", "to_bits", "assert_range"])
                a = {"r": rnd.choice(ints)[0]}
                if op in ("neg", "abs"):
                    B.add({"op": "un", "name": op, "a": a})
                    regs.append((nxt, "int"))
                elif op in ("check_zero", "check_positive"):
                    B.add({"op": "meth", "name": op, "a": a})
                    regs.append((nxt, "bool"))
                elif op == "to_bits":
                    B.add({"op": "meth", "name": op, "a": a})
                    regs.append((nxt, "list"))
                elif op == "assert_range":
                    B.add({"op": "meth", "name": op, "a": a, "args": [{"c": -lim - 1}, {"c": lim + 1}]})
                    regs.append((nxt, "none"))
                else:
                    o = pick_int()
                    if op in ("pow", "lshift", "rshift"):
                        o = {"c": rnd.randint(0, 2)} if rnd.random() < 0.7 else o
                    if rnd.random() < 0.25 and "c" not in o:
                        a, o = {"c": rnd.randint(-2, 3)}, a
                    B.add({"op": "bin", "name": op, "a": a, "b": o})
                    regs.append((nxt, "bool" if op in BIN_CMP else ("list" if op == "divmod" else "int")))
            else:
                B.add({"op": "new", "kind": "priv", "ty": "int", "v": rnd.randint(-lim, lim)})
                regs.append((nxt, "int"))
            nxt += 1
        return B.build()
