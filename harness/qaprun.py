"""Runs ONE op-record program (with sub-circuit calls) on pysnark.qaptools.backend in the current directory, calls prove()
(the external tools are failing stubs: the backend's own splitting step still runs), and reports what was passed to the
backend interface.  One process per program: the backend keeps its call context in module globals.

usage: python -m harness.qaprun <job.json> <out.json>     (cwd = scratch directory of this run)
"""
import contextlib
import io
import json
import sys

from harness import driver as drv


class QapDriver(drv.Driver):
    def __init__(self, cfg):
        self.cfg = cfg
        import pysnark.qaptools.options as opts
        if cfg.get("prime"):
            opts.vc_p = cfg["prime"]
        import pysnark.qaptools.backend as be
        self.be = be
        import pysnark.runtime as rt
        import pysnark.boolean as bo
        import pysnark.fixedpoint as fx
        import pysnark.branching as br
        import pysnark.array as ar
        import pysnark.pack as pk
        self.rt, self.bo, self.fx, self.br, self.ar, self.pk = rt, bo, fx, br, ar, pk
        rt.autoprove = False
        rt.bitlength = cfg["bitlength"]
        self.regs, self.regsnap, self.depth, self.extra, self.raised = [], [], 0, None, False
        self.calls = []          # sub-circuit calls: name, context, number of secret leaves in args / results
        self.traced = []         # equations handed to add_constraint, with the context current at that time
        orig = be.add_constraint

        def spy(v, w, y):
            self.traced.append({"ctx": be.vc_ctx, "a": str(v), "b": str(w), "c": str(y)})
            return orig(v, w, y)
        be.add_constraint = spy

    def step(self, st, nested=False):
        try:
            res = self.do(st)
        except Exception as e:
            self.regs.append(None)
            self.raised = True
            self.err = repr(e)
            if nested:
                raise
            return
        self.regs.append(res)

    def marker(self, *a, **k):
        pass

    def snap(self, o, out=None):
        return []

    def shape(self, o):
        return ""

    def do(self, st):
        if st["op"] == "subqap":
            be, rt = self.be, self.rt
            body = st["body"]
            info = {"fname": st["name"], "nargs": 0, "nres": 0, "ctx": ""}

            def fn(*args):
                info["ctx"] = be.vc_ctx
                info["nargs"] = len([x for x in self._flat(args) if isinstance(x, rt.LinComb)])
                self.regs.append(list(args))
                self.run_steps(body.get("steps", []), nested=True)
                ret = self.opnd(body["ret"])
                info["nres"] = len([x for x in self._flat(ret) if isinstance(x, rt.LinComb)])
                return ret
            r = be.subqap(st["name"])(fn)(*[self.opnd(x) for x in st["args"]])
            self.calls.append(info)
            return r
        return super().do(st)


def main():
    job = json.load(open(sys.argv[1]))
    d = QapDriver(job)
    prog = job["program"]
    mid = []
    for st in prog["steps"]:
        if st.get("op") == "prove":
            # an explicit proving step in the middle of the program
            e0 = io.StringIO()
            try:
                with contextlib.redirect_stderr(e0), contextlib.redirect_stdout(io.StringIO()):
                    d.be.prove()
                mid.append("")
            except Exception as e:
                mid.append("%s: %s" % (type(e).__name__, e))
            d.regs.append(None)
            continue
        d.step(st)
    err = io.StringIO()
    proved, perr = True, ""
    try:
        with contextlib.redirect_stderr(err), contextlib.redirect_stdout(io.StringIO()):
            d.be.prove()
    except Exception as e:
        proved, perr = False, "%s: %s" % (type(e).__name__, e)
    vals = {"values": [{"ctx": c, "v": int(v)} for c, v in []]}
    json.dump({"id": prog["id"], "raised": d.raised, "err": getattr(d, "err", ""), "proved": proved, "prove_err": perr, "stderr": err.getvalue(),
               "calls": d.calls, "traced": d.traced, "p": str(d.be.get_modulus()), "mid_prove_err": mid}, open(sys.argv[2], "w"))


if __name__ == "__main__":
    sys.setrecursionlimit(10000)
    main()
