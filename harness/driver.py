"""Program driver: replays op-record programs into the real pysnark code on the
recording backend and emits one event per public call.

Run as a worker:   python -m harness.driver <job.json> <out.json>
job = {"cfg": {"P":..,"bitlength":..,"resolution":..,"modname":..}, "programs":[{"id":..,"ign":bool,"steps":[...]}]}
out = {"traces":[{"id":..,"cfg":..,"events":[...]}]}

The driver is an observer: it never judges.  All verdicts are TLC's.
"""
import json
import operator
import os
import sys
import traceback
from fractions import Fraction

WIDE = 1 << 30


COMPOUND = ("guarded", "ite", "snark", "cf", "cfevents", "try")


class DriverAbort(Exception):
    """Raised by a {"op":"raise"} step: a user exception inside a region."""


class _Propagate(Exception):
    """Carries a real exception out of a nested body after its event was logged."""

    def __init__(self, exc):
        self.exc = exc


class Driver:
    def __init__(self, cfg):
        self.cfg = cfg
        self.P = cfg["P"]
        from harness import recorder
        self.mod = recorder.install(self.P, cfg.get("modname", "pysnark.nobackend"))
        self.rec = self.mod._rec
        if cfg.get("env_backend"):
            os.environ["PYSNARK_BACKEND"] = cfg["env_backend"]
        import pysnark.runtime as rt
        import pysnark.boolean as bo
        import pysnark.fixedpoint as fx
        import pysnark.branching as br
        import pysnark.array as ar
        import pysnark.pack as pk
        self.rt, self.bo, self.fx, self.br, self.ar, self.pk = rt, bo, fx, br, ar, pk
        rt.autoprove = True
        rt.final = lambda: None
        self.tokens = {}
        self.keep = []
        self.ONE0 = rt.LinComb.ONE
        self.token(None)
        self.token(self.ONE0)

    # ------------------------------------------------------------------ encoding
    def token(self, obj):
        k = id(obj)
        if k not in self.tokens:
            self.tokens[k] = len(self.tokens)
            self.keep.append(obj)
        return self.tokens[k]

    def enc(self, v):
        if isinstance(v, bool):
            v = int(v)
        if not isinstance(v, int):
            return {"v": 0, "m": 0, "w": True, "bad": True}
        if -WIDE < v < WIDE:
            return {"v": v, "m": v % self.P, "w": False}
        return {"v": 0, "m": v % self.P, "w": True}

    def lcs(self, lc):
        from harness.recorder import RLC
        if isinstance(lc, RLC):
            return lc.canon()
        return [[999999, 1]]  # not a backend LC: will never evaluate right

    def leaf(self, k, v=0, d=1, lc=None):
        e = self.enc(v)
        return {"k": k, "v": e["v"], "m": e["m"], "w": e["w"], "d": d, "lc": lc if lc is not None else []}

    def snap(self, o, out=None):
        """Flatten an object into a list of leaf records (depth-first)."""
        rt, bo, fx = self.rt, self.bo, self.fx
        if out is None:
            out = []
        if isinstance(o, rt.LinComb):
            out.append(self.leaf("int", o.value, 1, self.lcs(o.lc)))
        elif isinstance(o, bo.LinCombBool):
            out.append(self.leaf("bool", o.lc.value, 1, self.lcs(o.lc.lc)))
        elif isinstance(o, fx.LinCombFxp):
            out.append(self.leaf("fxp", o.lc.value, 1, self.lcs(o.lc.lc)))
        elif isinstance(o, bool):
            out.append(self.leaf("pybool", int(o)))
        elif isinstance(o, int):
            out.append(self.leaf("pyint", o))
        elif isinstance(o, float):
            try:
                fr = Fraction(o)
                if abs(fr.numerator) < WIDE and fr.denominator < WIDE:
                    out.append(self.leaf("pyfloat", fr.numerator, fr.denominator))
                else:
                    out.append(self.leaf("pyfloatwide"))
            except (ValueError, OverflowError):
                out.append(self.leaf("pyfloatwide"))
        elif o is None:
            out.append(self.leaf("none"))
        elif isinstance(o, (list, tuple)):
            for x in o:
                self.snap(x, out)
        elif isinstance(o, dict):
            for k in o:
                self.snap(o[k], out)
        elif isinstance(o, self.ar.Array):
            for x in o.arr:
                self.snap(x, out)
        else:
            out.append(self.leaf("other"))
        return out

    def shape(self, o):
        if isinstance(o, (list, tuple)):
            return "[" + ",".join(self.shape(x) for x in o) + "]"
        if isinstance(o, self.ar.Array):
            return "A[" + ",".join(self.shape(x) for x in o.arr) + "]"
        if isinstance(o, dict):
            return "{" + ",".join(str(k) + ":" + self.shape(o[k]) for k in o) + "}"
        return "."

    def guard_state(self):
        rt = self.rt
        g = rt.guard
        one = rt.LinComb.ONE
        st = {"has": g is not None, "tok": self.token(g), "ign": bool(rt._ignore_errors),
              "onetok": self.token(one), "oneconst": one is self.ONE0}
        if g is not None and isinstance(g, rt.LinComb):
            e = self.enc(g.value)
            st.update({"v": e["v"], "m": e["m"], "lc": self.lcs(g.lc)})
        elif g is not None and isinstance(g, self.bo.LinCombBool):
            e = self.enc(g.lc.value)
            st.update({"v": e["v"], "m": e["m"], "lc": self.lcs(g.lc.lc)})
        else:
            st.update({"v": 1, "m": 1, "lc": [[0, 1]]})
        if isinstance(one, rt.LinComb):
            e = self.enc(one.value)
            st.update({"onev": e["v"], "onem": e["m"], "onelc": self.lcs(one.lc)})
        else:
            st.update({"onev": 0, "onem": 0, "onelc": [[999999, 1]]})
        return st

    # ------------------------------------------------------------------ operands
    def opnd(self, a):
        if isinstance(a, dict):
            if "r" in a:
                return self.regs[a["r"]]
            if "c" in a:
                return a["c"]
            if "f" in a:
                return a["f"][0] / a["f"][1]
            if "b" in a:
                return bool(a["b"])
            if "l" in a:
                return [self.opnd(x) for x in a["l"]]
            if "t" in a:
                return tuple(self.opnd(x) for x in a["t"])
            if "d" in a:
                return {k: self.opnd(v) for k, v in a["d"].items()}
            if "none" in a:
                return None
            if "s" in a:
                return str(a["s"])
        raise ValueError("bad operand %r" % (a,))

    def argsnap(self, a):
        try:
            return self.snap(self.opnd(a))
        except Exception:
            return [self.leaf("other")]

    # ------------------------------------------------------------------ steps
    BIN = {"add": operator.add, "sub": operator.sub, "mul": operator.mul, "truediv": operator.truediv,
           "floordiv": operator.floordiv, "mod": operator.mod, "divmod": divmod, "pow": operator.pow,
           "lshift": operator.lshift, "rshift": operator.rshift, "and": operator.and_, "or": operator.or_,
           "xor": operator.xor, "eq": operator.eq, "ne": operator.ne, "lt": operator.lt, "le": operator.le,
           "gt": operator.gt, "ge": operator.ge}
    UN = {"neg": operator.neg, "pos": operator.pos, "abs": abs, "invert": operator.invert}

    def fn(self, name):
        rt, bo, fx, br, ar, pk = self.rt, self.bo, self.fx, self.br, self.ar, self.pk
        table = {
            "PrivVal": rt.PrivVal, "PubVal": rt.PubVal, "ConstVal": rt.ConstVal,
            "PrivValBool": bo.PrivValBool, "PubValBool": bo.PubValBool,
            "PrivValFxp": fx.PrivValFxp, "PubValFxp": fx.PubValFxp,
            "LinCombBool": bo.LinCombBool, "LinCombFxp": fx.LinCombFxp,
            "ensurebool": bo.LinCombBool._ensurebool, "ensurefxp": fx.LinCombFxp._ensurefxp,
            "ensurelc": rt.LinComb._ensurelc,
            "from_bits": rt.LinComb.from_bits, "if_then_else": br.if_then_else,
            "Array": ar.Array, "sum": sum, "ONE": lambda: rt.LinComb.ONE, "ZERO": lambda: rt.LinComb.ZERO,
            "lin_comb": __import__("pysnark.linalg", fromlist=["lin_comb"]).lin_comb,
            "scalar_mul": __import__("pysnark.linalg", fromlist=["scalar_mul"]).scalar_mul,
            "vector_sub": __import__("pysnark.linalg", fromlist=["vector_sub"]).vector_sub,
        }
        return table[name]

    def packer(self, sch):
        pk = self.pk
        if sch[0] == "bool":
            return pk.PackBool()
        if sch[0] == "intmod":
            return pk.PackIntMod(sch[1])
        if sch[0] == "list":
            return pk.PackList([self.packer(s) for s in sch[1]])
        if sch[0] == "repeat":
            return pk.PackRepeat(self.packer(sch[1]), sch[2])
        raise ValueError(sch)

    def do(self, st):
        """Execute one step, return the python result (may raise)."""
        op = st["op"]
        rt = self.rt
        if op == "new":
            kind, ty, v = st["kind"], st["ty"], st["v"]
            if isinstance(v, dict):
                v = self.opnd(v)
            name = {"priv": "PrivVal", "pub": "PubVal", "const": "ConstVal"}[kind]
            if ty == "bool":
                if kind == "const":
                    return self.bo.LinCombBool._ensurebool(v)
                name += "Bool"
            elif ty == "fxp":
                if kind == "const":
                    return self.fx.LinCombFxp._ensurefxp(v)
                name += "Fxp"
            return self.fn(name)(v)
        if op == "bin":
            return self.BIN[st["name"]](self.opnd(st["a"]), self.opnd(st["b"]))
        if op == "un":
            return self.UN[st["name"]](self.opnd(st["a"]))
        if op == "meth":
            o = self.opnd(st["a"])
            args = [self.opnd(x) for x in st.get("args", [])]
            kw = {k: self.opnd(v) for k, v in st.get("kw", {}).items()}
            return getattr(o, st["name"])(*args, **kw)
        if op == "call":
            args = [self.opnd(x) for x in st.get("args", [])]
            kw = {k: self.opnd(v) for k, v in st.get("kw", {}).items()}
            return self.fn(st["fn"])(*args, **kw)
        if op == "item":
            return self.opnd(st["a"])[st["i"]]
        if op == "ignore":
            rt.ignore_errors(bool(st["v"]))
            return None
        if op == "set":
            if st["what"] == "bitlength":
                rt.bitlength = st["v"]
            elif st["what"] == "resolution":
                self.fx.resolution = st["v"]
            return None
        if op == "raise":
            kind = st.get("kind", "")
            if kind == "KeyboardInterrupt":
                raise KeyboardInterrupt()
            if kind == "SystemExit":
                raise SystemExit(3)
            if kind == "GeneratorExit":
                raise GeneratorExit()
            raise DriverAbort()
        if op == "guarded":
            cond = self.opnd(st["cond"])
            body = st["body"]

            flag = {"entered": False}
            condsnap = self.argsnap(st["cond"])

            def fn():
                flag["entered"] = True
                self.marker("body_enter", [condsnap])
                self.run_steps(body, nested=True)
                return None
            gobjs = self.__dict__.setdefault("gobjs", [])
            g = gobjs[-1] if (st.get("same") and gobjs) else rt.guarded(cond)     # "same": re-enter the enclosing region's guarded object
            gobjs.append(g)
            try:
                return g(fn)()
            finally:
                gobjs.pop()
                self.extra = {"entered": flag["entered"]}
        if op == "try":
            try:
                self.run_steps(st["body"], nested=True)
            except BaseException:            # a user try/except that swallows whatever its body raised
                self.extra = {"caught": True}
                return None
            self.extra = {"caught": False}
            return None
        if op == "ite":
            cond = self.opnd(st["cond"])

            def mk(br):
                if isinstance(br, dict) and "body" in br:
                    def fn():
                        self.marker("body_enter", [self.argsnap(st["cond"])])
                        self.run_steps(br["body"], nested=True)
                        return self.opnd(br["ret"])
                    return fn
                return self.opnd(br)
            return self.br.if_then_else(cond, mk(st["t"]), mk(st["f"]))
        if op == "peek":
            return self.opnd(st["a"])
        if op == "getitem":
            a = self.opnd(st["a"])
            i = self.opnd(st["i"])
            if isinstance(i, list):
                i = tuple(i)
            return a[i]
        if op == "copyrow":
            a = self.opnd(st["a"])
            row = a[self.opnd(st["src"])]
            a[st["dst"]] = row
            if "dst2" in st:
                a[st["dst2"]] = row          # the same row object at a second position
            return None
        if op == "setitem":
            a = self.opnd(st["a"])
            i = self.opnd(st["i"])
            if isinstance(i, list):
                i = tuple(i)
            a[i] = self.opnd(st["v"])
            return None
        if op == "branchset":
            # the array is held in a BranchingValues context and written inside an _if block: ctx.a[i] = v (i may be a tuple);
            # afterwards the program goes on with the merged array the context holds (`a = _.a`): its contents are moved into
            # the register's object so that later steps of the history see them
            from pysnark.branching import BranchingValues, _if, _endif
            ctx = BranchingValues()
            orig = self.opnd(st["a"])
            try:
                ctx.a = orig
                i = self.opnd(st["i"])
                if isinstance(i, list):
                    i = tuple(i)
                v = self.opnd(st["v"])
                _if(self.opnd(st["cond"]), ctx)
                ctx.a[i] = v
                _endif(ctx)
                orig.arr = ctx.a.arr
                return None
            finally:
                ctx.stack.clear()
        if op == "pack":
            return self.packer(st["schema"]).pack(self.opnd(st["a"]))
        if op == "unpack":
            return self.packer(st["schema"]).unpack(self.opnd(st["a"]), st.get("pos", 0))
        if op == "bitlen":
            return self.packer(st["schema"]).bitlen()
        if op == "snark":
            body = st["body"]
            captured = {"called": False}

            def fn(*args, **kwargs):
                captured["called"] = True
                self.regs.append(list(args))
                self.regsnap.append(self.snap(self.regs[-1]))
                captured["inner_args"] = self.snap(list(args))
                captured["argsreg"] = len(self.regs) - 1
                self.marker("body_enter")
                self.run_steps(body.get("steps", []), nested=True)
                ret = self.opnd(body["ret"]) if body["ret"] != "args" else self._restruct(body, args)
                captured["inner_ret"] = self.snap(ret)
                captured["inner_shape"] = self.shape(ret)
                captured["npub_at_ret"] = len(self.rec.pub)
                captured["npriv_at_ret"] = len(self.rec.priv)
                return ret
            try:
                r = rt.snark(fn)(*[self.opnd(x) for x in st["args"]], **{k: self.opnd(v) for k, v in st.get("kw", {}).items()})
            finally:
                self.extra = {"inner_args": captured.get("inner_args", []), "inner_ret": captured.get("inner_ret", []),
                              "npub_at_ret": captured.get("npub_at_ret", -1), "npriv_at_ret": captured.get("npriv_at_ret", -1),
                              "called": captured["called"], "npub_total": len(self.rec.pub), "inner_shape": captured.get("inner_shape", "")}
            return r
        if op == "cfevents":
            from harness import cfevents
            return cfevents.run(self, st["events"])
        if op == "cf":
            from harness import cfdriver
            return cfdriver.run(self, st["prog"], st["inputs"])
        if op == "hash":
            return self.hash_step(st)
        raise ValueError("unknown op " + op)

    def _restruct(self, body, args):
        """Bodies that compute from their arguments: "how" names a small fixed function of the argument tuple."""
        how = body.get("how", "identity")
        if how == "identity":
            return args if len(args) != 1 else args[0]
        if how == "reverse":
            return tuple(reversed(args))
        if how == "sumprod":
            flat = [x for x in self._flat(args) if isinstance(x, (self.rt.LinComb,))]
            if not flat:
                return 0
            s = flat[0]
            for x in flat[1:]:
                s = s + x
            return [s, {"p": flat[0] * flat[-1]}]
        if how == "first":
            return args[0]
        if how == "dup":
            # the same secret object occurs several times in the result
            flat = [x for x in self._flat(args) if isinstance(x, (self.rt.LinComb, self.fx.LinCombFxp, self.bo.LinCombBool))]
            if not flat:
                return [1, 1]
            return (flat[0], [flat[0], flat[-1]], {"again": flat[0]})
        if how == "const":
            return (1, 2.5, "text", None)
        raise ValueError(how)

    def _flat(self, o):
        if isinstance(o, (list, tuple)):
            for x in o:
                yield from self._flat(x)
        elif isinstance(o, dict):
            for k in o:
                yield from self._flat(o[k])
        else:
            yield o

    def hash_step(self, st):
        if st["which"] == "poseidon":
            import pysnark.poseidon_hash as ph
            return ph.poseidon_hash(self.opnd(st["a"]))
        if st["which"] == "permute":
            import pysnark.poseidon_hash as ph
            return ph.permute(self.opnd(st["a"]))
        if st["which"] == "ggh":
            import pysnark.ggh_hash as gh
            return gh.ggh_hash(self.opnd(st["a"]))
        raise ValueError(st)

    def run_steps(self, steps, nested=False, base=None):
        for st in steps:
            self.step(st, nested)

    def step(self, st, nested=False):
        ev = {"op": st["op"], "name": st.get("name", st.get("fn", st.get("kind", ""))),
              "depth": self.depth, "args": [], "ty": st.get("ty", ""), "tag": st.get("tag", "")}
        for key in ("a", "b", "cond", "i", "v"):
            if key in st and isinstance(st[key], dict):
                ev["args"].append(self.argsnap(st[key]))
        for x in st.get("args", []):
            ev["args"].append(self.argsnap(x))
        if st["op"] in COMPOUND:
            # compound step: emit an "enter" marker so inner events are bracketed
            self.marker(st["op"] + "_enter", ev["args"], st.get("tag", ""))
            self.depth += 1
        self.extra = None
        exc = None
        res = None
        try:
            res = self.do(st)
            out = "ok"
        except BaseException as e:  # noqa  (programs raise KeyboardInterrupt / SystemExit / GeneratorExit on purpose)
            exc = e
            out = "raise"
        finally:
            if st["op"] in COMPOUND:
                self.depth -= 1
        self.regs.append(res)
        ev["reg"] = len(self.regs) - 1
        ev["out"] = out
        ev["exc"] = type(exc).__name__ if exc is not None else ""
        ev["res"] = self.snap(res) if out == "ok" else []
        ev["shape"] = self.shape(res) if out == "ok" else ""
        if self.extra:
            ev.update(self.extra)
        # deltas since the last emitted event
        ev.update(self.deltas())
        ev["g"] = self.guard_state()
        ev["rs"] = int(getattr(self.fx, "resolution", 0))     # fixedpoint.resolution in force when the call was made
        self.regsnap.append(ev["res"] if out == "ok" else [])
        ev["chg"] = self.changes(skip=len(self.regs) - 1)
        self.emit(ev)
        if exc is not None and nested:
            raise exc          # the ORIGINAL exception object travels on through the library code around this body

    def deltas(self):
        rec = self.rec
        a, b, c = self.mark
        d = {"npub": [self.enc(v) for v in rec.pub[a:]],
             "npriv": [self.enc(v) for v in rec.priv[b:]],
             "ncons": [[self.lcs(x) for x in con] for con in rec.cons[c:]],
             "order": [k[0] for k in rec.order[self.omark:]]}
        self.mark = (len(rec.pub), len(rec.priv), len(rec.cons))
        self.omark = len(rec.order)
        return d

    def changes(self, skip):
        ch = []
        for i, o in enumerate(self.regs):
            if i == skip:
                continue
            s = self.snap(o)
            if s != self.regsnap[i]:
                ch.append({"id": i, "now": s})
                self.regsnap[i] = s
        return ch

    def marker(self, op, args=(), tag=""):
        self.emit({"op": op, "name": "", "depth": self.depth, "args": list(args), "ty": "", "tag": tag,
                   "out": "ok", "exc": "", "res": [], "shape": "", "g": self.guard_state(),
                   "chg": self.changes(skip=-1), "reg": -1})

    def emit(self, ev):
        if "npub" not in ev:
            ev.update(self.deltas())
        ev["seq"] = len(self.events)
        self.events.append(ev)

    # ------------------------------------------------------------------ programs
    def reset(self, bitlength, resolution):
        rt = self.rt
        self.rec.reset()
        rt.guard = None
        rt._ignore_errors = False
        rt.LinComb.ONE = self.ONE0
        rt.bitlength = bitlength
        self.fx.resolution = resolution
        rt.num_constraints = 0
        self.regs = []
        self.regsnap = []
        self.events = []
        self.depth = 0
        self.mark = (0, 0, 0)
        self.omark = 0
        self.extra = None

    def run_program(self, prog):
        cfg = dict(self.cfg)
        cfg.update(prog.get("cfg", {}))
        self.reset(cfg["bitlength"], cfg.get("resolution", 8))
        if prog.get("ign"):
            self.rt.ignore_errors(True)
        try:
            for st in prog["steps"]:
                self.step(st)
        except Exception as e:  # machinery failure, not a verdict
            return {"id": prog["id"], "cfg": cfg, "ign": bool(prog.get("ign")), "events": self.events,
                    "driver_error": traceback.format_exc()}
        # closing event: state after the whole program
        self.emit({"op": "end", "name": "", "depth": 0, "args": [], "ty": "", "tag": "", "out": "ok", "exc": "", "res": [], "shape": "",
                   "g": self.guard_state(), "chg": self.changes(skip=-1), "reg": -1})
        return {"id": prog["id"], "cfg": cfg, "ign": bool(prog.get("ign")), "events": self.events,
                "meta": prog.get("meta", {})}


def main():
    job = json.load(open(sys.argv[1]))
    d = Driver(job["cfg"])
    traces = []
    for p in job["programs"]:
        traces.append(d.run_program(p))
    with open(sys.argv[2], "w") as f:
        json.dump({"traces": traces}, f, separators=(",", ":"))


if __name__ == "__main__":
    sys.setrecursionlimit(10000)
    main()
