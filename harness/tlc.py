"""Thin runner around TLC: builds the command line, runs it in a scratch
metadir, parses the verdict, the error trace, state counts, coverage and the
PrintT records the specs emit."""
import os
import re
import shutil
import subprocess
import tempfile
import time

SPEC_DIR = os.path.join(os.path.dirname(os.path.dirname(os.path.abspath(__file__))), "spec")
JAR = "/opt/veriftools/tla/tla2tools.jar:/opt/veriftools/tla/CommunityModules-deps.jar"


class TLCResult:
    def __init__(self):
        self.ok = False            # model checking completed, no error
        self.violated = None       # name of violated invariant / property
        self.error = None          # other TLC error text (machinery failure)
        self.state = {}            # variables of the last state of the error trace
        self.trace = []            # list of dicts (all states of the error trace)
        self.generated = 0
        self.distinct = 0
        self.printed = []          # raw PrintT lines  (<<...>>)
        self.coverage = {}
        self.cmd = ""
        self.wall = 0.0
        self.stdout = ""

    def known(self):
        out = []
        for ln in self.printed:
            m = re.match(r'<<\s*"KNOWN",\s*"([^"]+)",\s*(.*?)\s*>>$', ln)
            if m:
                out.append((m.group(1), m.group(2)))
        return out

    def tagged(self, tag):
        out = []
        for ln in self.printed:
            m = re.match(r'<<\s*"%s",\s*(.*?)\s*>>$' % re.escape(tag), ln)
            if m:
                out.append(m.group(1))
        return out


def scratch_root():
    base = os.environ.get("VERIF_SCRATCH") or os.environ.get("TMPDIR") or "/tmp"
    os.makedirs(base, exist_ok=True)
    return base


def run(module, cfg=None, env=None, workers=16, timeout=3000, simulate=None, depth=None, cont=False,
        coverage=False, seed=None, deadlock=False, spec_dir=SPEC_DIR, heap="6g", extra=None, dfs=False):
    res = TLCResult()
    meta = tempfile.mkdtemp(prefix="tlc_", dir=scratch_root())
    cfg = cfg or (module + ".cfg")
    # java.io.tmpdir inside the metadir: TLC unpacks its standard modules into a fresh tlc-<n> directory per run and never removes it
    jopts = ["-XX:+UseParallelGC", "-Xmx" + heap, "-Xss64m", "-Djava.io.tmpdir=" + meta]
    if dfs:
        jopts.append("-Dtlc2.tool.queue.IStateQueue=StateDeque")
    cmd = ["java"] + jopts + ["-cp", JAR, "tlc2.TLC", "-workers", str(workers), "-metadir", meta,
                              "-noGenerateSpecTE", "-config", cfg]
    if not deadlock:
        cmd.append("-deadlock")
    if cont:
        cmd.append("-continue")
    if coverage:
        cmd += ["-coverage", "1"]
    if simulate:
        cmd += ["-simulate", simulate]
    if depth:
        cmd += ["-depth", str(depth)]
    if seed is not None:
        cmd += ["-seed", str(seed)]
    if extra:
        cmd += list(extra)
    cmd.append(module)
    e = dict(os.environ)
    if env:
        e.update({k: str(v) for k, v in env.items()})
    res.cmd = " ".join(cmd)
    t0 = time.time()
    try:
        p = subprocess.run(cmd, cwd=spec_dir, env=e, stdout=subprocess.PIPE, stderr=subprocess.STDOUT,
                           timeout=timeout, text=True, errors="replace")
        out = p.stdout
    except subprocess.TimeoutExpired as ex:
        out = (ex.stdout or b"").decode("utf8", "replace") if isinstance(ex.stdout, bytes) else (ex.stdout or "")
        res.error = "TLC timeout after %ss" % timeout
    finally:
        shutil.rmtree(meta, ignore_errors=True)
    res.wall = time.time() - t0
    res.stdout = out
    parse(out, res)
    return res


def parse(out, res):
    lines = out.splitlines()
    cur = None
    buf = None
    for i, ln in enumerate(lines):
        if ln.startswith("<<"):
            # PrintT record; may span lines if long -- TLC keeps them on one line up to a width, join continuation
            rec = ln
            j = i + 1
            while rec.count("<<") > rec.count(">>") and j < len(lines):
                rec += " " + lines[j].strip()
                j += 1
            res.printed.append(rec)
        m = re.match(r"Error: Invariant (\S+) is violated", ln)
        if m:
            res.violated = m.group(1)
        m = re.match(r"Error: Action property (\S+) is violated", ln)
        if m:
            res.violated = m.group(1)
        if "Temporal properties were violated" in ln:
            res.violated = res.violated or "temporal"
        if ln.startswith("Error: Property ") and "violated" in ln:
            res.violated = ln.split()[2]
        m = re.match(r"Error: Invariant (\S+) is violated by the initial state", ln)
        if m:
            res.violated = m.group(1)
            cur = {}
            res.trace.append(cur)
            buf = None
            continue
        m = re.match(r"State (\d+): ", ln)
        if m:
            cur = {}
            res.trace.append(cur)
            buf = None
            continue
        if cur is not None:
            m = re.match(r"^(?:/\\ )?(\w+) = (.*)$", ln)
            if m:
                buf = m.group(1)
                cur[buf] = m.group(2)
            elif ln.strip() == "" or ln.startswith("Error") or re.match(r"^\d+ states generated", ln) or ln.startswith("Finished") or ln.startswith("The "):
                cur = None if ln.strip() != "" else cur
                buf = None
            elif buf is not None:
                cur[buf] += " " + ln.strip()
        m = re.match(r"^(\d+) states generated, (\d+) distinct states found", ln)
        if m:
            res.generated = int(m.group(1))
            res.distinct = int(m.group(2))
        m = re.match(r"^<(\w+) line (\d+), col \d+ to line \d+, col \d+ of module (\w+)>: (\d+):(\d+)", ln)
        if m:
            res.coverage[m.group(1)] = res.coverage.get(m.group(1), 0) + int(m.group(5))
    if res.trace:
        res.state = res.trace[-1]
    if "Model checking completed. No error has been found." in out or \
       ("Finished in" in out and res.violated is None and "Error:" not in out):
        res.ok = True
    if not res.ok and res.violated is None and res.error is None:
        errs = [ln for ln in lines if ln.startswith("Error:") or "Exception" in ln]
        # simulation mode ends without the "completed" banner
        if not errs and ("Progress:" in out or "states checked" in out):
            res.ok = True
        else:
            res.error = "\n".join(errs[:8]) or "TLC ended without verdict"
    return res
