"""pytest plugin (kept in /verif, loaded with `-p verif_recorder`): runs the repository's own tests on the recording
backend and writes one trace per test (the values and constraints the test handed to the backend), so that
TraceCore.tla can evaluate Inv_Sat on executions the suite already performs but never checks.
Environment: VERIF_REC_P (prime), VERIF_REC_OUT (output json)."""
import json
import os
import sys

sys.path.insert(0, os.environ["VERIF_ROOT"])
from harness import recorder  # noqa: E402

P = int(os.environ.get("VERIF_REC_P", "32749"))
_mod = recorder.install(P)          # before pysnark.runtime is imported by the tests' conftest
_rec = _mod._rec
_traces = []
_state = {"mark": (0, 0, 0), "raises": False}

import pytest  # noqa: E402

_orig_raises = pytest.raises


def _raises(*a, **k):
    _state["raises"] = True          # the test provokes an exception on purpose: "finishes without raising" does not apply
    return _orig_raises(*a, **k)


pytest.raises = _raises


def _enc(v):
    if isinstance(v, bool):
        v = int(v)
    return int(v) % P if isinstance(v, int) else 0


def pytest_runtest_setup(item):
    _state["mark"] = (len(_rec.pub), len(_rec.priv), len(_rec.cons))
    _state["raises"] = False


def pytest_runtest_teardown(item, nextitem):
    a, b, c = _state["mark"]
    import pysnark.runtime as rt
    # constraints of this test may mention wires of earlier tests: the trace carries the witness prefix as a first event
    ev0 = {"seq": 0, "op": "prefix", "name": "", "out": "ok", "args": [], "res": [], "chg": [], "npub": [_enc(v) for v in _rec.pub[:a]],
           "npriv": [_enc(v) for v in _rec.priv[:b]], "ncons": [], "g": {"has": False, "m": 1, "lc": [[0, 1]], "onem": 1, "onelc": [[0, 1]]}}
    ev1 = dict(ev0, seq=1, op="test", name=item.nodeid, out="raise" if _state["raises"] else "ok",
               npub=[_enc(v) for v in _rec.pub[a:]], npriv=[_enc(v) for v in _rec.priv[b:]],
               ncons=[[x.canon() for x in con] for con in _rec.cons[c:]])
    _traces.append({"id": item.nodeid, "P": P, "ign": bool(rt.ignore_errors()), "events": [ev0, ev1]})


def pytest_sessionfinish(session, exitstatus):
    out = os.environ.get("VERIF_REC_OUT")
    if out:
        json.dump({"traces": _traces}, open(out, "w"), separators=(",", ":"))
