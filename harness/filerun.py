"""Runs op-record programs on a REAL file-writing backend (snarkjs, zkinterface*, qaptools), calls the backend's
prove() in a scratch directory per program, and reports the traced system as the backend holds it in memory
(public values, private values, constraints) next to the decoded files.

usage: python -m harness.filerun <job.json> <out.json>
job = {"backend": "snarkjs"|"zkinterface"|"zkifbellman"|"zkifbulletproofs", "prime": <int or null>, "bitlength":..,"resolution":..,
       "programs":[...], "workdir": <dir>}
"""
import importlib
import io
import json
import os
import sys
import contextlib

from harness import driver as drv

MODS = {"snarkjs": "pysnark.snarkjsbackend", "zkinterface": "pysnark.zkinterface.backend", "zkifbellman": "pysnark.zkinterface.backendbellman",
        "zkifbulletproofs": "pysnark.zkinterface.backendbulletproofs"}


def big(v):
    """signed integer -> {"neg","abs" limbs}"""
    v = int(v)
    a, out = abs(v), []
    while a:
        out.append(a & 255)
        a >>= 8
    return {"neg": v < 0, "abs": out}


class FileDriver(drv.Driver):
    def __init__(self, cfg):
        self.cfg = cfg
        self.be = importlib.import_module(MODS[cfg["backend"]])
        be = self.be
        if cfg.get("prime"):
            # small-prime instantiation: the modulus is a module global / has a public setter
            if cfg["backend"] == "snarkjs":
                be.snarkjsp = cfg["prime"]
            else:
                # the concrete module (e.g. backendbellman) re-exports set_modulus of the generic module
                importlib.import_module("pysnark.zkinterface.backend").set_modulus(cfg["prime"])
        import pysnark.runtime as rt
        import pysnark.boolean as bo
        import pysnark.fixedpoint as fx
        import pysnark.branching as br
        import pysnark.array as ar
        import pysnark.pack as pk
        self.rt, self.bo, self.fx, self.br, self.ar, self.pk = rt, bo, fx, br, ar, pk
        rt.autoprove = False
        self.ONE0 = rt.LinComb.ONE
        self.core = importlib.import_module("pysnark.zkinterface.backend") if cfg["backend"].startswith("zk") else be
        self.backend_name = rt.backend_name
        self.backend_module = rt.backend.__name__
        # observe the backend interface: what the library hands over, before the backend stores it
        self.seen = {"pub": [], "priv": [], "cons": []}
        tgt = rt.backend
        o_priv, o_pub, o_con = tgt.privval, tgt.pubval, tgt.add_constraint

        def privval(v):
            self.seen["priv"].append(v)
            return o_priv(v)

        def pubval(v):
            self.seen["pub"].append(v)
            return o_pub(v)

        def add_constraint(v, w, y):
            self.seen["cons"].append([dict(v.lc), dict(w.lc), dict(y.lc)])
            return o_con(v, w, y)
        tgt.privval, tgt.pubval, tgt.add_constraint = privval, pubval, add_constraint

    def step(self, st, nested=False):
        try:
            res = self.do(st)
        except Exception as e:
            self.regs.append(None)
            self.raised = True
            if nested:
                raise
            return
        self.regs.append(res)

    def marker(self, *a, **k):
        pass

    def snap(self, o, out=None):
        return []

    def shape(self, o):
        return ""

    def run(self, prog, workdir):
        core, rt = self.core, self.rt
        core.pubvals.clear()
        core.privvals.clear()
        core.constraints.clear()
        if hasattr(core, "seen") and hasattr(core.seen, "clear"):
            pass
        for k in self.seen:
            self.seen[k].clear()
        for attr in dir(core):
            # backends may keep auxiliary state between add_constraint calls (caches, de-duplication sets): a fresh program
            # must start from a fresh backend, so every module-level set/dict that is not part of the interface is emptied
            v = getattr(core, attr)
            if isinstance(v, (set, dict)) and not attr.startswith("__") and attr not in ("__builtins__",):
                try:
                    if isinstance(v, set):
                        v.clear()
                except Exception:
                    pass
        rt.guard = None
        rt._ignore_errors = bool(prog.get("ign"))
        rt.LinComb.ONE = self.ONE0
        rt.bitlength = self.cfg["bitlength"]
        self.fx.resolution = self.cfg.get("resolution", 8)
        self.regs, self.regsnap, self.depth, self.extra, self.raised = [], [], 0, None, False
        for st in prog["steps"]:
            if st.get("op") == "prove":
                # an explicit proving step in the middle of the program (checkpoint): the files written at the END must still
                # describe everything traced, whatever an earlier prove() left behind
                os.makedirs(workdir, exist_ok=True)
                cwd0 = os.getcwd()
                os.chdir(workdir)
                try:
                    with contextlib.redirect_stdout(io.StringIO()), contextlib.redirect_stderr(io.StringIO()):
                        self.be.prove()
                finally:
                    os.chdir(cwd0)
                self.regs.append(None)
                continue
            self.step(st)
        for inj in prog.get("inject", []):
            # extra witness / coefficient classes the API does not readily produce (wide values, zero coefficients)
            if inj["what"] == "priv":
                rt.PrivVal(int(inj["v"]))
            elif inj["what"] == "pub":
                rt.PubVal(int(inj["v"]))
            elif inj["what"] == "zerocoef":
                x = rt.PrivVal(3)
                y = x * 0 + rt.PrivVal(1) * int(inj.get("k", 0))
                rt.add_constraint_unsafe(y, rt.LinComb.ONE, y)
            elif inj["what"] == "emptylc":
                rt.add_constraint_unsafe(rt.LinComb.ZERO, rt.LinComb.ZERO, rt.LinComb.ZERO)
        os.makedirs(workdir, exist_ok=True)
        cwd = os.getcwd()
        os.chdir(workdir)
        try:
            with contextlib.redirect_stdout(io.StringIO()), contextlib.redirect_stderr(io.StringIO()):
                self.be.prove()
            proved, err = True, ""
        except Exception as e:
            proved, err = False, repr(e)
        finally:
            os.chdir(cwd)
        p = core.get_modulus()
        S = self.seen
        trace = {"p": big(p)["abs"], "pub": [big(v) for v in S["pub"]], "priv": [big(v) for v in S["priv"]],
                 "pubk": [big(int(v) // p)["abs"] if int(v) >= 0 else big((-int(v) + p - 1) // p)["abs"] for v in S["pub"]],
                 "privk": [big(int(v) // p)["abs"] if int(v) >= 0 else big((-int(v) + p - 1) // p)["abs"] for v in S["priv"]],
                 "cons": [[[{"w": k, "c": big(c), "k": (big(int(c) // p)["abs"] if int(c) >= 0 else big((-int(c) + p - 1) // p)["abs"])}
                            for k, c in lc.items()] for lc in con] for con in S["cons"]]}
        return {"id": prog["id"], "raised": self.raised, "proved": proved, "err": err, "trace": trace, "workdir": workdir,
                "backend_name": self.backend_name, "backend_module": self.backend_module}


def main():
    job = json.load(open(sys.argv[1]))
    d = FileDriver(job)
    outs = []
    for i, p in enumerate(job["programs"]):
        outs.append(d.run(p, os.path.join(job["workdir"], "p%d" % i)))
    json.dump({"runs": outs}, open(sys.argv[2], "w"), separators=(",", ":"))


if __name__ == "__main__":
    sys.setrecursionlimit(10000)
    main()
