"""Builds Soundness.tla instances from recorded traces: the constraint system of the call(s) tagged
"main", with every wire allocated before it fixed and every wire allocated during it free."""


def leafv(x):
    return {"k": x["k"], "m": x["m"], "lc": x["lc"]}


def from_trace(tr, mode="unique", extra=None):
    evs = tr["events"]
    idx = [i for i, e in enumerate(evs) if e.get("tag") == "main"]
    if not idx:
        return None
    i0, i1 = idx[0], idx[-1]
    pub, priv = [], []
    for e in evs[:i0]:
        pub += [x["m"] for x in e["npub"]]
        priv += [x["m"] for x in e["npriv"]]
    fixpub, fixpriv = len(pub), len(priv)
    cons, order = [], []
    for e in evs[i0:i1 + 1]:
        pub += [x["m"] for x in e["npub"]]
        priv += [x["m"] for x in e["npriv"]]
        cons += e["ncons"]
        order += [o for o in e["order"] if o != "con"]
    last = evs[i1]
    res = [leafv(x) for x in last["res"] if x["k"] in ("int", "bool", "fxp")]
    for c in last["chg"]:
        res += [leafv(x) for x in c["now"] if x["k"] in ("int", "bool", "fxp")]
    # aux position (1-based, allocation order) at which each constraint becomes fully assigned
    posof = {}
    np_, nq_ = fixpub, fixpriv
    for k, o in enumerate(order):
        if o == "pub":
            np_ += 1
            posof[np_] = k + 1
        else:
            nq_ += 1
            posof[-nq_] = k + 1
    readyat = []
    for con in cons:
        r = 0
        for lc in con:
            for w, _c in lc:
                r = max(r, posof.get(w, 0))
        readyat.append(r)
    meta = tr.get("meta", {})
    inst = {"id": tr["id"], "P": tr["cfg"]["P"], "bitlength": tr["cfg"]["bitlength"], "resolution": tr["cfg"].get("resolution", 0),
            "pub": pub, "priv": priv, "fixpub": fixpub, "fixpriv": fixpriv, "cons": cons, "order": order,
            "res": res, "mode": mode, "out": last["out"],
            "op": str(meta.get("op", "")), "kinds": str(meta.get("kinds", "")), "gmode": str(meta.get("mode", "")),
            "a": int(meta.get("a", 0) or 0), "b": int(meta.get("b", 0) or 0), "c": int(meta.get("c", 0) or 0),
            "n": int(meta.get("n", tr["cfg"]["bitlength"])), "accepted": True, "awire": 0, "bwire": 0, "cwire": 0, "ncons": len(cons), "readyidx": [[j + 1 for j, r in enumerate(readyat) if r == k + 1] for k in range(len(order))]}
    if extra:
        inst.update(extra)
    return inst


def free_operands(tr, kinds):
    """Instance in which every wire of the program (operands included) is adversarial.  kinds: e.g. "SS", "Sc", "Scc",
    "SSS", "SBSB": secret operands are the first private wires, in order."""
    evs = tr["events"]
    pub, priv, cons, order = [], [], [], []
    for e in evs:
        pub += [x["m"] for x in e["npub"]]
        priv += [x["m"] for x in e["npriv"]]
        cons += e["ncons"]
        order += [o for o in e["order"] if o != "con"]
    wires, nxt, ks = [], 0, kinds
    while ks:
        if ks.startswith("SB"):
            nxt += 1
            wires.append(-nxt)
            ks = ks[2:]
        elif ks[0] in "SF":
            nxt += 1
            wires.append(-nxt)
            ks = ks[1:]
        elif ks.startswith("cb"):
            wires.append(0)
            ks = ks[2:]
        else:
            wires.append(0)
            ks = ks[1:]
    wires += [0, 0, 0]
    inst = from_trace(tr, "assert_free")
    posof, np_, nq_ = {}, 0, 0
    for k, o in enumerate(order):
        if o == "pub":
            np_ += 1
            posof[np_] = k + 1
        else:
            nq_ += 1
            posof[-nq_] = k + 1
    readyat = [max([0] + [posof.get(w, 0) for lc in con for w, _c in lc]) for con in cons]
    inst.update({"pub": pub, "priv": priv, "fixpub": 0, "fixpriv": 0, "cons": cons, "order": order, "res": [],
                 "ncons": len(cons), "awire": wires[0], "bwire": wires[1], "cwire": wires[2],
                 "readyidx": [[j + 1 for j, r in enumerate(readyat) if r == k + 1] for k in range(len(order))]})
    return inst


def refix(inst, fixpub, fixpriv):
    """Fix the first fixpub public / fixpriv private wires of an instance (honest values); recompute the search order."""
    # rebuild the full allocation order of the wires that were free
    order = list(inst["order"])
    np_, nq_ = inst["fixpub"], inst["fixpriv"]
    keep = []
    for o in order:
        if o == "pub":
            np_ += 1
            if np_ > fixpub:
                keep.append(o)
        else:
            nq_ += 1
            if nq_ > fixpriv:
                keep.append(o)
    inst = dict(inst, fixpub=max(fixpub, inst["fixpub"]), fixpriv=max(fixpriv, inst["fixpriv"]), order=keep)
    posof, np_, nq_ = {}, inst["fixpub"], inst["fixpriv"]
    for k, o in enumerate(keep):
        if o == "pub":
            np_ += 1
            posof[np_] = k + 1
        else:
            nq_ += 1
            posof[-nq_] = k + 1
    readyat = [max([0] + [posof.get(w, 0) for lc in con for w, _c in lc]) for con in inst["cons"]]
    inst["readyidx"] = [[j + 1 for j, r in enumerate(readyat) if r == k + 1] for k in range(len(keep))]
    return inst


def from_trace_e2e(tr, mode="unique", extra=None):
    """End-to-end instance: only the program INPUTS (the wires of the leading `new` steps) are fixed; every wire allocated
    afterwards -- by any call of the program, inside or outside guarded regions -- is adversarial.  The result is the
    result of the last call tagged "main"."""
    evs = tr["events"]
    k = 0
    while k < len(evs) and evs[k]["op"] == "new" and evs[k]["depth"] == 0:
        k += 1
    base = dict(tr)
    base["events"] = [dict(e, tag="main") if (i >= k and e["op"] != "end") else dict(e, tag="") for i, e in enumerate(evs)]
    inst = from_trace(base, mode, extra)
    if inst is None:
        return None
    mains = [e for e in evs if e.get("tag") == "main"]
    last = mains[-1] if mains else evs[-2]
    inst["res"] = [leafv(x) for x in last["res"] if x["k"] in ("int", "bool", "fxp")]
    # a raise inside a `try` block that the program catches does not end the run; only the last call's outcome counts then
    inst["out"] = "raise" if (last["out"] != "ok" or any(e["out"] != "ok" and e["depth"] == 0 and e["op"] != "try" for e in evs)) else "ok"
    return inst
