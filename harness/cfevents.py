"""Renders an event sequence generated from Branching.tla as calls of the block API on a BranchingValues context.
Conditions are abstract 0/1 inputs: every condition event becomes a fresh secret boolean of that value.
Events: if(c) elif(c) else endif while(c) breakif(c) endwhile assign(v, e)."""


def run(drv, events):
    from pysnark.branching import BranchingValues, _if, _elif, _else, _endif, _while, _endwhile, _breakif
    rt, bo = drv.rt, drv.bo
    ctx = BranchingValues()
    ctx.x = rt.PrivVal(1)
    ctx.y = rt.PrivVal(2)

    def cond(c, k):
        # alternate the typing of conditions: secret boolean / comparison result / 0-1 secret integer
        if k % 3 == 0:
            return bo.PrivValBool(c)
        if k % 3 == 1:
            return rt.PrivVal(c) > 0
        return rt.PrivVal(c)

    def expr(e):
        if e == "k5":
            return 5
        if e == "k7":
            return 7
        if e == "xp1":
            return ctx.x + 1
        if e == "xpy":
            return ctx.x + ctx.y
        return ctx.y

    probes = []

    def wh(c):
        # all _while calls of one loop must come from one source line (the API recognises a loop by its line)
        return _while(c, ctx)
    try:
        for k, ev in enumerate(events):
            a = ev["a"]
            if a == "if":
                _if(cond(ev["c"], k), ctx)
            elif a == "elif":
                def elif_cond(ev=ev, k=k):
                    # what guard is active while the condition of an _elif is evaluated?  (-1: none)
                    g = drv.guard_state()
                    probes.append(g["v"] if g["has"] else -1)
                    return cond(ev["c"], k)
                _elif(elif_cond, ctx)
            elif a == "else":
                _else(ctx)
            elif a == "endif":
                _endif(ctx)
            elif a == "while":
                wh(cond(ev["c"], k))
            elif a == "breakif":
                _breakif(cond(ev["c"], k), ctx)
            elif a == "endwhile":
                _endwhile(ctx)
            elif a == "assign":
                setattr(ctx, ev["v"], expr(ev["e"]))
    finally:
        ctx.stack.clear()
        drv.extra = {"probes": probes}
    return [ctx.vals.get(n) for n in ("x", "y", "z")]
