"""Projections of recorded traces onto the fields a trace specification reads
(keeps the JSON handed to TLC small).  Pure field selection -- no judgement."""


def _leaf_core(x):
    return {"k": x["k"], "m": x["m"], "v": x["v"], "w": x["w"], "lc": x["lc"]}


def _arg(x):
    return {"k": x["k"], "v": x["v"], "w": x["w"]}


def core(trace):
    """View for TraceCore (C01, C04)."""
    evs = []
    for e in trace["events"]:
        chg = [_leaf_core(x) for c in e["chg"] for x in c["now"]]
        if not (e["npub"] or e["npriv"] or e["ncons"] or e["res"] or chg or e["out"] == "raise"):
            continue
        g = e["g"]
        evs.append({"seq": e["seq"], "op": e["op"], "name": e["name"], "out": e["out"],
                    "args": [[_arg(x) for x in a] for a in e["args"]],
                    "res": [_leaf_core(x) for x in e["res"]], "chg": chg,
                    "npub": [x["m"] for x in e["npub"]], "npriv": [x["m"] for x in e["npriv"]], "ncons": e["ncons"],
                    "g": {"has": g["has"], "m": g["m"], "lc": g["lc"], "onem": g["onem"], "onelc": g["onelc"]}})
    return {"id": trace["id"], "P": trace["cfg"]["P"], "ign": trace["ign"], "events": evs}
