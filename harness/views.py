"""Projections of recorded traces onto the fields a trace specification reads
(keeps the JSON handed to TLC small).  Pure field selection -- no judgement."""


def _leaf_core(x):
    return {"k": x["k"], "m": x["m"], "v": x["v"], "w": x["w"], "lc": x["lc"]}


def _arg(x):
    return {"k": x["k"], "v": x["v"], "w": x["w"]}


def core(trace):
    """View for TraceCore (C01, C04)."""
    evs = []
    for e in trace["events"]:
        chg = [_leaf_core(x) for c in e["chg"] for x in c["now"]]
        if not (e["npub"] or e["npriv"] or e["ncons"] or e["res"] or chg or e["out"] == "raise"):
            continue
        g = e["g"]
        evs.append({"seq": e["seq"], "op": e["op"], "name": e["name"], "out": e["out"],
                    "args": [[_arg(x) for x in a] for a in e["args"]],
                    "res": [_leaf_core(x) for x in e["res"]], "chg": chg,
                    "npub": [x["m"] for x in e["npub"]], "npriv": [x["m"] for x in e["npriv"]], "ncons": e["ncons"],
                    "g": {"has": g["has"], "m": g["m"], "lc": g["lc"], "onem": g["onem"], "onelc": g["onelc"]}})
    return {"id": trace["id"], "P": trace["cfg"]["P"], "ign": trace["ign"], "events": evs}


def ref(trace):
    """View for TraceRef (C05) / TraceFxp (C14): operand and result values of every call.
    gfalse says whether the call sits inside a region whose condition is 0 -- derived from the program STRUCTURE (the
    enter/leave markers and the logged condition values), not from the guard the code reports, so that a guard leaking
    out of a region does not hide the calls that follow it."""
    evs = []
    mode = trace.get("meta", {}).get("mode", "plain")
    base = {"plain": 0, "ign": 0, "g1": 1, "g0": 1, "g1ign": 1, "g0ign": 1, "g11": 2, "g10": 2, "g01": 2}.get(mode, 0)
    stack = []
    for e in trace["events"]:
        if e["op"] in ("guarded_enter", "ite_enter"):
            c = e["args"][0][0]["v"] if e["args"] and e["args"][0] else 1
            stack.append(c)
            continue
        if e["op"] in ("guarded", "ite"):
            if stack:
                stack.pop()
        if e["op"] in ("new", "end") or e["op"].endswith("_enter"):
            continue
        evs.append({"seq": e["seq"], "op": e["op"], "name": e["name"], "out": e["out"], "exc": e["exc"], "depth": e["depth"],
                    "args": [[{"k": x["k"], "v": x["v"], "w": x["w"], "d": x["d"]} for x in a] for a in e["args"]],
                    "res": [{"k": x["k"], "v": x["v"], "w": x["w"], "d": x["d"], "m": x["m"]} for x in e["res"]],
                    "rs": e.get("rs", trace["cfg"].get("resolution", 0)),
                    "gfalse": bool(e["op"] not in ("guarded", "ite") and (any(c == 0 for c in stack) or (e["op"] == "ite" and False)))})
    return {"id": trace["id"], "P": trace["cfg"]["P"], "bitlength": trace["cfg"]["bitlength"], "resolution": trace["cfg"].get("resolution", 0),
            "ign": trace["ign"], "basedepth": base, "events": evs}


def shape(trace):
    """View for TraceShape (C06): kinds/order of new variables, canonical constraints, result wire expressions."""
    evs = []
    for e in trace["events"]:
        reslc = [[x["k"], x["lc"]] for x in e["res"]] + [[x["k"], x["lc"]] for c in e["chg"] for x in c["now"]]
        evs.append({"op": e["op"], "name": e["name"], "out": e["out"], "order": e["order"], "ncons": e["ncons"], "reslc": reslc})
    return {"id": trace["id"], "events": evs}
