"""Recording backend for pysnark over a configurable prime field.

The module object built by make_backend(P) implements the backend interface
pysnark.runtime expects (privval, pubval, zero, one, fieldinverse,
get_modulus, add_constraint, prove).  It is placed in sys.modules under one of
the registry names *before* pysnark.runtime is imported, so that stage 1 of the
runtime's backend selection picks it up -- no change to the repository is
needed.

Its linear-combination class is written independently of the repository's:
dict wire -> coefficient in 1..P-1 (zero terms dropped).  Wire numbering:
0 = constant one, +k = k-th public value, -j = j-th private value.
"""
import sys
import types


class RLC:
    __slots__ = ("t", "P")

    def __init__(self, t, P):
        self.t = t
        self.P = P

    def _norm(self, d):
        P = self.P
        return RLC({w: c % P for w, c in d.items() if c % P != 0}, P)

    def __add__(self, o):
        if not isinstance(o, RLC):
            return NotImplemented
        d = dict(self.t)
        for w, c in o.t.items():
            d[w] = d.get(w, 0) + c
        return self._norm(d)

    def __sub__(self, o):
        if not isinstance(o, RLC):
            return NotImplemented
        d = dict(self.t)
        for w, c in o.t.items():
            d[w] = d.get(w, 0) - c
        return self._norm(d)

    def __mul__(self, k):
        if not isinstance(k, int):
            return NotImplemented
        return self._norm({w: c * k for w, c in self.t.items()})

    def __neg__(self):
        return self._norm({w: -c for w, c in self.t.items()})

    def canon(self):
        return [[w, c] for w, c in sorted(self.t.items())]

    def __repr__(self):
        return "RLC(%r)" % (self.canon(),)


class Rec:
    """State of one recording backend."""

    def __init__(self, P):
        self.P = P
        self.reset()

    def reset(self):
        self.pub = []
        self.priv = []
        self.cons = []
        self.seq = 0
        self.order = []   # ("pub"|"priv"|"con", index) in call order

    def eval(self, lc):
        P = self.P
        s = 0
        for w, c in lc.t.items():
            if w == 0:
                v = 1
            elif w > 0:
                v = self.pub[w - 1]
            else:
                v = self.priv[-w - 1]
            s += c * v
        return s % P


def make_backend(P, modname="pysnark.nobackend"):
    rec = Rec(P)
    m = types.ModuleType(modname)
    m._rec = rec
    m.__file__ = __file__

    def privval(val):
        rec.priv.append(val)
        rec.order.append(("priv", len(rec.priv)))
        return RLC({-len(rec.priv): 1}, P)

    def pubval(val):
        rec.pub.append(val)
        rec.order.append(("pub", len(rec.pub)))
        return RLC({len(rec.pub): 1}, P)

    def zero():
        return RLC({}, P)

    def one():
        return RLC({0: 1}, P)

    def fieldinverse(val):
        v = val % P
        if v == 0:
            raise ZeroDivisionError
        return pow(v, P - 2, P)

    def get_modulus():
        return P

    def add_constraint(v, w, y):
        rec.cons.append((v, w, y))
        rec.order.append(("con", len(rec.cons)))

    def prove():
        pass

    for f in (privval, pubval, zero, one, fieldinverse, get_modulus, add_constraint, prove):
        setattr(m, f.__name__, f)
    return m


def install(P, modname="pysnark.nobackend"):
    """Install a recording backend; must run before pysnark.runtime is imported."""
    if "pysnark.runtime" in sys.modules:
        raise RuntimeError("recorder must be installed before pysnark.runtime is imported")
    m = make_backend(P, modname)
    sys.modules[modname] = m
    return m
