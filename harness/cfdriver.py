"""Renders a structured program (tiny AST) as calls of pysnark's block-structured oblivious API
(_if/_elif/_else/_endif, _while/_breakif/_endwhile, _range/_endfor) on a BranchingValues context.

AST (JSON):
  expr : {"e":"var","n":name} | {"e":"const","v":int} | {"e":"add"|"sub"|"mul","l":expr,"r":expr}
  cond : {"c":"lt"|"le"|"gt"|"ge"|"eq"|"ne","l":expr,"r":expr} | {"c":"var","n":name}        (0/1 variable)
  stmt : {"s":"assign","n":name,"e":expr}
       | {"s":"if","arms":[{"c":cond,"body":[stmt]}...],"haselse":bool,"els":[stmt]}
       | {"s":"for","i":name,"stop":expr,"max":int,"check":bool,"body":[stmt]}
       | {"s":"while","c":cond,"max":int,"body":[stmt]}
       | {"s":"breakif","c":cond}
inputs: {name: {"v":int,"ty":"int"|"bool"|"plain"}}
"""


def run(drv, prog, inputs):
    br = drv.br
    from pysnark.branching import BranchingValues, _if, _elif, _else, _endif, _while, _endwhile, _breakif, _range, _endfor
    rt, bo = drv.rt, drv.bo
    ctx = BranchingValues()
    names = list(inputs.keys())
    for n in names:
        spec = inputs[n]
        if "ref" in spec:
            # an object created by an earlier step of the program (so that it counts as a program INPUT for end-to-end instances)
            setattr(ctx, n, drv.opnd(spec["ref"]))
        elif spec["ty"] == "int":
            setattr(ctx, n, rt.PrivVal(spec["v"]))
        elif spec["ty"] == "bool":
            setattr(ctx, n, bo.PrivValBool(spec["v"]))
        elif spec["ty"] == "fxp":
            # v is the REPRESENTATION (scaled integer) at the resolution in force
            setattr(ctx, n, drv.fx.PrivValFxp(spec["v"] / (1 << drv.fx.resolution)))
        elif spec["ty"] == "array":
            setattr(ctx, n, drv.ar.Array([rt.PrivVal(v) for v in spec["v"]]))
        elif spec["ty"] == "matrix":
            setattr(ctx, n, [[rt.PrivVal(v) for v in row] for row in spec["v"]])
        else:
            setattr(ctx, n, spec["v"])
    loopvars = {}

    def ev(e):
        k = e["e"]
        if k == "var":
            return loopvars[e["n"]] if e["n"] in loopvars else getattr(ctx, e["n"])
        if k == "const":
            return e["v"]
        if k == "aget":
            a = getattr(ctx, e["n"])
            return a[e["i"]] if "j" not in e else a[e["i"]][e["j"]]
        l, r = ev(e["l"]), ev(e["r"])
        if k == "div":
            return l / r if not isinstance(l, int) else l // r
        return l + r if k == "add" else (l - r if k == "sub" else l * r)

    def cond(c):
        k = c["c"]
        if k == "var":
            return getattr(ctx, c["n"])
        l, r = ev(c["l"]), ev(c["r"])
        return {"lt": lambda: l < r, "le": lambda: l <= r, "gt": lambda: l > r, "ge": lambda: l >= r,
                "eq": lambda: l == r, "ne": lambda: l != r}[k]()

    def seq(ss):
        for s in ss:
            stmt(s)

    def stmt(s):
        k = s["s"]
        if k == "assign":
            setattr(ctx, s["n"], ev(s["e"]))
        elif k == "aset":
            # in-place update of a container held in a tracked variable: _.a[i] = e  /  _.m[i][j] = e
            a = getattr(ctx, s["n"])
            i = ev(s["i"]) if isinstance(s["i"], dict) else s["i"]
            if "j" in s:
                a[i][s["j"]] = ev(s["e"])
            else:
                a[i] = ev(s["e"])
        elif k == "if":
            arms = s["arms"]
            _if(cond(arms[0]["c"]), ctx)
            seq(arms[0]["body"])
            for a in arms[1:]:
                _elif(lambda a=a: cond(a["c"]), ctx)
                seq(a["body"])
            if s.get("haselse"):
                _else(ctx)
                seq(s["els"])
            _endif(ctx)
        elif k == "for":
            for i in _range(ev(s["stop"]), max=s["max"], ctx=ctx, checkstopmax=bool(s.get("check"))):
                loopvars[s["i"]] = i
                seq(s["body"])
            _endfor(ctx)
            loopvars.pop(s["i"], None)
        elif k == "while":
            it = 0
            # the documented idiom: `while _while(cond) and public_bound:` -- _while must be called from ONE source line
            while _while(cond(s["c"]), ctx) and it < s["max"]:
                it += 1
                seq(s["body"])
            _endwhile(ctx)
        elif k == "breakif":
            _breakif(cond(s["c"]), ctx)
        else:
            raise ValueError(k)

    try:
        seq(prog)
    finally:
        # leave no open contexts behind (BranchingValues.__del__ would raise inside the garbage collector)
        ctx.stack.clear()
    def flat(o):
        if isinstance(o, drv.ar.Array):
            return [y for x in o.arr for y in flat(x)]
        if isinstance(o, list):
            return [y for x in o for y in flat(x)]
        return [o]
    return [y for n in names for y in flat(getattr(ctx, n))]
