"""Replays LinAlg histories on the linear-combination class of a real backend (one process per backend
configuration) and reports, after every operation, the canonical term map of every pool object.

usage: python -m harness.lcworker <job.json> <out.json>
job = {"backend": name, "histories": [[{op,i,j,s,t}...]...]}
Backends: snarkjs, zkinterface, zkifbellman, zkifbulletproofs, qaptools, recorder:<P>
"""
import importlib
import json
import os
import sys

SMALL = 1 << 20
BIG = 999999999


def limbs(n):
    out = []
    while n:
        out.append(n & 255)
        n >>= 8
    return out


def load(name):
    if name.startswith("recorder:"):
        from harness import recorder
        return recorder.make_backend(int(name.split(":")[1]), "verif_recorder_backend")
    mod = {"snarkjs": "pysnark.snarkjsbackend", "zkinterface": "pysnark.zkinterface.backend", "zkifbellman": "pysnark.zkinterface.backendbellman",
           "zkifbulletproofs": "pysnark.zkinterface.backendbulletproofs", "qaptools": "pysnark.qaptools.backend"}[name]
    return importlib.import_module(mod)


def terms(obj, p):
    """canonical {key: coef mod p} of a backend LC object (dict-based, Sig term list, or recorder RLC)"""
    if hasattr(obj, "lc") and isinstance(obj.lc, dict):
        items = list(obj.lc.items())
    elif hasattr(obj, "sig"):
        items = [(v, c) for (c, v) in obj.sig]
    elif hasattr(obj, "t"):
        items = list(obj.t.items())
    else:
        raise TypeError("unknown LC class %r" % type(obj))
    d = {}
    for k, c in items:
        d[k] = (d.get(k, 0) + c) % p
    return {k: c for k, c in d.items() if c != 0}


def small(c, p):
    if c <= SMALL:
        return c
    if p - c <= SMALL:
        return -(p - c)
    return BIG


def inverse_facts(be, bname, xs, out):
    p = be.get_modulus()
    out["facts"].append({"kind": "modulus", "backend": bname, "p": limbs(p)})
    for x in xs:
        xv = x["s"] + x["t"] * p
        try:
            inv = be.fieldinverse(xv)
            raised = False
        except Exception:
            inv, raised = None, True
        if xv % p == 0:
            out["facts"].append({"kind": "inverse_of_zero", "backend": bname, "raised": raised or inv in (None,)})
            continue
        if raised or not isinstance(inv, int) or inv < 0:
            out["facts"].append({"kind": "inverse", "backend": bname, "neg": xv < 0, "absx": limbs(abs(xv)), "inv": [], "k": [], "x": x})
            continue
        k = (abs(xv) * inv + (1 if xv < 0 else -1)) // p     # quotient certificate; TLC checks the exact identity
        out["facts"].append({"kind": "inverse", "backend": bname, "neg": xv < 0, "absx": limbs(abs(xv)), "inv": limbs(inv), "k": limbs(k), "x": x})


def switching(job):
    """One process walks through the three zkinterface field configurations (and back), asking the same inverses each time."""
    out = {"backend": "zkswitch", "modulus": [], "traces": [], "facts": []}
    import importlib
    for name in ("zkinterface", "zkifbellman", "zkifbulletproofs", "zkinterface", "zkifbulletproofs", "zkifbellman"):
        mod = load(name)
        importlib.reload(mod) if name != "zkinterface" else importlib.import_module("pysnark.zkinterface.backend").set_modulus(
            21888242871839275222246405745257275088548364400416034343698204186575808495617)
        inverse_facts(mod, name, job.get("xs", []), out)
    json.dump(out, open(sys.argv[2], "w"), separators=(",", ":"))


def main():
    job = json.load(open(sys.argv[1]))
    if job["backend"] == "zkswitch":
        return switching(job)
    be = load(job["backend"])
    p = be.get_modulus()
    out = {"backend": job["backend"], "modulus": limbs(p), "traces": [], "facts": []}
    # base objects, created once per history
    for hi, hist in enumerate(job["histories"]):
        v1, v2, one, zero = be.privval(5), be.pubval(7), be.one(), be.zero()
        k1 = list(terms(v1, p).keys())[0]
        k2 = list(terms(v2, p).keys())[0]
        k0 = list(terms(one, p).keys())[0]

        def obs(o):
            t = terms(o, p)
            return {"a": small(t.get(k1, 0), p), "b": small(t.get(k2, 0), p), "c": small(t.get(k0, 0), p),
                    "other": len([k for k in t if k not in (k1, k2, k0)])}
        pool = [v1, v2, one, zero]
        tr = {"id": "%s/h%d" % (job["backend"], hi), "base": [obs(o) for o in pool], "events": []}
        for h in hist:
            a = pool[h["i"] - 1]
            raised = ""
            try:
                if h["op"] == "add":
                    r = a + pool[h["j"] - 1]
                elif h["op"] == "sub":
                    r = a - pool[h["j"] - 1]
                elif h["op"] == "neg":
                    r = -a
                else:
                    r = a * (h["s"] + h["t"] * p)
            except Exception as e:
                # an operation of the algebra that raises is an outcome to be judged, not a failure of the harness
                raised = type(e).__name__
                r = be.zero()
            pool.append(r)
            tr["events"].append(dict(h, raised=raised, pool=[obs(o) for o in pool]))
        out["traces"].append(tr)
    # field facts
    bname = job["backend"]
    if not bname.startswith("recorder"):
        out["facts"].append({"kind": "modulus", "backend": bname, "p": limbs(p)})
        for x in job.get("xs", []):
            xv = x["s"] + x["t"] * p
            try:
                inv = be.fieldinverse(xv)
                raised = False
            except Exception:
                inv, raised = None, True
            if xv % p == 0:
                out["facts"].append({"kind": "inverse_of_zero", "backend": bname, "raised": raised or inv in (None,)})
                continue
            if raised or not isinstance(inv, int) or inv < 0:
                out["facts"].append({"kind": "inverse", "backend": bname, "neg": xv < 0, "absx": limbs(abs(xv)), "inv": [], "k": [], "x": x})
                continue
            k = (abs(xv) * inv + (1 if xv < 0 else -1)) // p     # quotient certificate; TLC checks the exact identity
            out["facts"].append({"kind": "inverse", "backend": bname, "neg": xv < 0, "absx": limbs(abs(xv)), "inv": limbs(inv), "k": limbs(k), "x": x})
    if bname == "zkswitch":
        pass
    json.dump(out, open(sys.argv[2], "w"), separators=(",", ":"))


if __name__ == "__main__":
    main()
