"""Shared plumbing for the checks: running driver workers in parallel, handing
batches of traces to TLC, known findings, replay files, evidence files."""
import contextlib
import json
import os
import shutil
import subprocess
import sys
import tempfile
import time

from harness import tlc

ROOT = os.path.dirname(os.path.dirname(os.path.abspath(__file__)))
REPO = os.environ.get("VERIF_REPO", "/repo")
PY = "/venv/bin/python"
NPROC = int(os.environ.get("VERIF_NPROC", "16"))


def seed():
    try:
        return int(os.environ.get("VERIF_SEED", "0"))
    except ValueError:
        return 0


@contextlib.contextmanager
def scratch(prefix="verif_"):
    d = tempfile.mkdtemp(prefix=prefix, dir=tlc.scratch_root())
    try:
        yield d
    finally:
        shutil.rmtree(d, ignore_errors=True)


def child_env(extra=None):
    e = dict(os.environ)
    e["PYTHONPATH"] = ROOT + os.pathsep + REPO
    e["PYTHONHASHSEED"] = "0"
    e["PYTHONDONTWRITEBYTECODE"] = "1"
    e.pop("PYSNARK_BACKEND", None)
    if extra:
        e.update(extra)
    return e


class MachineryError(Exception):
    pass


def run_programs(cfg, programs, nproc=None, timeout=900, fresh=False):
    """Run programs on the real code (fresh worker processes), return traces in program order.
    fresh=True: ONE interpreter per program -- for families whose point is state that survives between calls (caches, memo tables):
    what an earlier, unrelated program of the batch left in the process would otherwise hide or fake such state."""
    nproc = nproc or NPROC
    if not programs:
        return []
    if fresh:
        from concurrent.futures import ThreadPoolExecutor
        with ThreadPoolExecutor(nproc) as ex:
            return [t[0] for t in ex.map(lambda p: run_programs(cfg, [dict(p, fresh=False)], nproc=1, timeout=timeout), programs)]
    marked = [p for p in programs if p.get("fresh")]
    if marked and len(marked) < len(programs):
        # programs marked fresh=True get an interpreter of their own, the others share worker processes
        byid = {}
        rest = [p for p in programs if not p.get("fresh")]
        for p, t in zip(marked, run_programs(cfg, marked, nproc=nproc, timeout=timeout, fresh=True)):
            byid[p["id"]] = t
        for p, t in zip(rest, run_programs(cfg, rest, nproc=nproc, timeout=timeout)):
            byid[p["id"]] = t
        return [byid[p["id"]] for p in programs]
    if marked:
        return run_programs(cfg, programs, nproc=nproc, timeout=timeout, fresh=True)
    orig = programs
    if len(set(p["id"] for p in programs)) != len(programs):
        # identical programs generated twice are run once; the same id with different content is a generator bug
        seen, uniq = {}, []
        for p in programs:
            key = json.dumps([p["steps"], p.get("ign"), p.get("cfg")], sort_keys=True)
            if p["id"] in seen:
                if seen[p["id"]] != key:
                    raise MachineryError("duplicate program id with different content: %s" % p["id"])
                continue
            seen[p["id"]] = key
            uniq.append(p)
        programs = uniq
    nchunks = max(1, min(nproc, (len(programs) + 7) // 8))
    chunks = [programs[i::nchunks] for i in range(nchunks)]
    with scratch("drv_") as d:
        procs = []
        for i, ch in enumerate(chunks):
            jf, of = os.path.join(d, "job%d.json" % i), os.path.join(d, "out%d.json" % i)
            with open(jf, "w") as f:
                json.dump({"cfg": cfg, "programs": ch}, f)
            p = subprocess.Popen([PY, "-m", "harness.driver", jf, of], cwd=d, env=child_env(),
                                 stdout=subprocess.PIPE, stderr=subprocess.PIPE)
            procs.append((p, of))
        byid = {}
        for p, of in procs:
            try:
                so, se = p.communicate(timeout=timeout)
            except subprocess.TimeoutExpired:
                p.kill()
                raise MachineryError("driver worker timed out")
            if p.returncode != 0 or not os.path.exists(of):
                raise MachineryError("driver worker failed: " + se.decode("utf8", "replace")[-2000:])
            for t in json.load(open(of))["traces"]:
                if "driver_error" in t:
                    raise MachineryError("driver error in program %s: %s" % (t["id"], t["driver_error"]))
                byid[t["id"]] = t
    return [byid[p["id"]] for p in orig]


# ---------------------------------------------------------------- findings
def load_findings():
    p = os.path.join(ROOT, "known_findings.json")
    if not os.path.exists(p):
        return {"findings": [], "fixed": []}
    return json.load(open(p))


def open_findings(prop):
    return [f for f in load_findings()["findings"] if f["property"] == prop and f.get("status", "open") == "open"]


def active_ids(props):
    if isinstance(props, str):
        props = [props]
    return [f["id"] for f in load_findings()["findings"] if f["property"] in props and f.get("status", "open") == "open"]


# ---------------------------------------------------------------- a check run
class Run:
    """Accumulates what one invocation of a property check covered."""

    def __init__(self, prop, tier):
        self.prop = prop
        self.tier = tier
        self.t0 = time.time()
        self.states = 0
        self.transitions = 0
        self.traces = 0
        self.evaluations = 0
        self.nontrivial = set()
        self.samples = []
        self.cmds = []
        self.violations = []
        self.known_hits = {}
        self.notes = []
        self.parts = []
        self.exhaustive = None
        self.coverage_actions = {}
        self.extra = {}

    def add_tlc(self, res, label=""):
        self.states += res.distinct
        self.transitions += res.generated
        self.cmds.append(res.cmd)
        for a, n in res.coverage.items():
            self.coverage_actions[a] = self.coverage_actions.get(a, 0) + n
        for fid, what in res.known():
            self.known_hits[fid] = self.known_hits.get(fid, 0) + 1
        self.parts.append({"part": label, "module": res.cmd.split()[-1], "distinct_states": res.distinct,
                           "states_generated": res.generated, "wall_s": round(res.wall, 2)})
        if res.error:
            if getattr(self, "defer_errors", False):
                # (a batch of chunks: violations found by the other chunks are reported first; see raise_deferred)
                self.deferred.append("TLC failed (%s): %s\n%s" % (label, res.error, res.stdout[-3000:]))
                return
            raise MachineryError("TLC failed (%s): %s\n%s" % (label, res.error, res.stdout[-3000:]))

    def raise_deferred(self):
        """A chunk that timed out or failed is a machinery failure -- unless another chunk of the same batch produced a genuine
        violation: that is reported (exit 1); the unexplored chunk is mentioned in the notes."""
        errs, self.deferred = list(getattr(self, "deferred", [])), []
        self.defer_errors = False
        if errs and not self.violations:
            raise MachineryError(errs[0])
        for e in errs:
            self.notes.append("chunk not explored: " + e.splitlines()[0])

    def violation(self, rec):
        os.makedirs(os.path.join(ROOT, "replays"), exist_ok=True)
        n = len(self.violations)
        path = os.path.join(ROOT, "replays", "%s_%s_%d.json" % (self.prop, self.tier, n))
        rec = dict(rec)
        rec["property"] = self.prop
        with open(path, "w") as f:
            json.dump(rec, f, indent=1, default=str)
        self.violations.append(path)
        print("VIOLATION property=%s replay=%s" % (self.prop, path), flush=True)
        if "summary" in rec:
            print("  " + str(rec["summary"])[:600], flush=True)

    def finish(self, rule, level="model_checking", assumptions=None, trusted=None):
        for f in open_findings(self.prop):
            hits = self.known_hits.get(f["id"], 0)
            print("KNOWN-FINDING: property=%s %s [%s; set aside %d time(s) in this run]" % (self.prop, f["what"], f["id"], hits), flush=True)
        ev = {
            "property_id": self.prop, "tier": self.tier, "seed": seed(), "level": level,
            "coverage": {
                "states": max(self.states, 0), "transitions": max(self.transitions, 0),
                "traces_validated_against_impl": self.traces,
                "evaluations": self.evaluations, "distinct_nontrivial": len(self.nontrivial),
                "rule": rule, "samples": self.samples[:6] or [{"note": "no sample recorded"}],
                "checker_cmd": self.cmds[0] if self.cmds else "",
                "tlc_runs": self.parts,
                "trusted_base": trusted or [],
                "known_findings_set_aside": self.known_hits,
                "spec_action_coverage": self.coverage_actions,
                "notes": self.notes,
            },
            "assumptions": assumptions or [],
            "wall_s": round(time.time() - self.t0, 2),
            "violations": len(self.violations),
        }
        if self.exhaustive is not None:
            ev["coverage"]["exhaustive"] = self.exhaustive
        ev["coverage"].update(self.extra)
        # evidence/<id>.json describes runs on /repo; a run against another tree (VERIF_REPO: seeded changes, replays) keeps its
        # record apart, under the git-ignored scratch directory
        evdir = os.path.join(ROOT, "evidence") if os.path.realpath(REPO) == "/repo" else os.path.join(ROOT, "scratch", "evidence_other_tree")
        os.makedirs(evdir, exist_ok=True)
        with open(os.path.join(evdir, self.prop + ".json"), "w") as f:
            json.dump(ev, f, indent=1, default=str)
        print("%s %s: %d traces, %d TLC states, %d violation(s), %.1fs" % (self.prop, self.tier, self.traces, self.states, len(self.violations), ev["wall_s"]), flush=True)
        return 1 if self.violations else 0


def _tlc_on_chunk(module, cfg, data, workers, cont, coverage, heap, consts=None, timeout=3000):
    with scratch("tr_") as d:
        tf = os.path.join(d, "traces.json")
        with open(tf, "w") as f:
            json.dump(data, f, separators=(",", ":"))
        cf = os.path.join(d, "run.cfg")
        base = open(os.path.join(tlc.SPEC_DIR, cfg)).read()
        with open(cf, "w") as f:
            f.write(base + '\nCONSTANT TraceFile = "%s"\n' % tf)
            for k, v in (consts or {}).items():
                f.write("CONSTANT %s = %s\n" % (k, v))
        return tlc.run(module, cfg=cf, workers=workers, cont=cont, coverage=coverage, heap=heap, timeout=timeout)


def validate_traces(run, module, traces, cfg=None, label="", props=None, extra_data=None, workers=None,
                    describe=None, programs=None, cont=False, coverage=False, heap="3g", view=None,
                    chunk=2500, parallel=4, consts=None):
    """Hand a batch of traces to a trace specification (in chunks, several TLC processes side by side).
    view(trace) projects a recorded trace onto the fields the specification reads.
    On an invariant violation a replay file is written and a VIOLATION line printed.
    Returns the list of TLCResults."""
    from concurrent.futures import ThreadPoolExecutor
    cfg = cfg or (module + ".cfg")
    active = active_ids(props or [run.prop])
    chunks = [traces[i:i + chunk] for i in range(0, len(traces), chunk)] or [[]]
    parallel = max(1, min(parallel, len(chunks)))
    w = workers or max(2, NPROC // parallel)

    def job(ch):
        data = {"traces": [view(t) for t in ch] if view else ch, "active": active}
        if extra_data:
            data.update(extra_data)
        return _tlc_on_chunk(module, cfg, data, w, cont, coverage, heap, consts)
    with ThreadPoolExecutor(parallel) as ex:
        results = list(ex.map(job, chunks))
    run.defer_errors, run.deferred = True, []
    for ci, (ch, res) in enumerate(zip(chunks, results)):
        run.add_tlc(res, "%s#%d" % (label or module, ci))
        run.traces += len(ch)
        if res.violated:
            tid = int(res.state.get("tid", "0") or 0)
            l = res.state.get("l", "?")
            tr = ch[tid - 1] if 0 < tid <= len(ch) else None
            prog = None
            if programs is not None and tr is not None:
                prog = next((p for p in programs if p["id"] == tr["id"]), None)
            ev = None
            try:
                vt = view(tr) if view else tr
                seq = vt["events"][int(l) - 1].get("seq", int(l) - 1)
                ev = tr["events"][seq]
            except Exception:
                pass
            rec = {"stage": label or module, "module": module, "tlc_cfg": cfg, "invariant": res.violated,
                   "tlc_state": res.state, "trace_id": tr["id"] if tr else None, "cfg": tr["cfg"] if tr else None,
                   "program": prog, "event": ev,
                   "summary": "%s false at event %s of %s: %s" % (res.violated, l, tr["id"] if tr else "?", describe(ev) if (describe and ev) else brief(ev))}
            run.violation(rec)
    run.raise_deferred()
    return results


def validate_insts(run, module, insts, cfg, label="", props=None, programs=None, chunk=400, parallel=4, heap="3g", workers=None, extra_data=None):
    """Hand Soundness instances to TLC (chunks side by side).  On violation: replay file + VIOLATION line."""
    from concurrent.futures import ThreadPoolExecutor
    active = active_ids(props or [run.prop])
    chunks = [insts[i:i + chunk] for i in range(0, len(insts), chunk)]
    if not chunks:
        return []
    parallel = max(1, min(parallel, len(chunks)))
    w = workers or max(2, NPROC // parallel)

    def job(ch):
        data = {"insts": ch, "active": active}
        if extra_data:
            data.update(extra_data)
        # quick tier: a chunk that needs more than 5 minutes is pathological (on the unchanged tree every chunk takes < 1 minute)
        return _tlc_on_chunk(module, cfg, data, w, False, False, heap, timeout=(300 if run.tier == "quick" else 3000))
    with ThreadPoolExecutor(parallel) as ex:
        results = list(ex.map(job, chunks))
    run.defer_errors, run.deferred = True, []
    for ci, (ch, res) in enumerate(zip(chunks, results)):
        run.add_tlc(res, "%s#%d" % (label or module, ci))
        run.traces += len(ch)
        if res.violated:
            tid = int(res.state.get("tid", "0") or 0)
            inst = ch[tid - 1] if 0 < tid <= len(ch) else None
            prog = next((p for p in (programs or []) if inst and p["id"] == inst["id"]), None)
            cfgd = {"P": inst["P"], "bitlength": inst["bitlength"], "resolution": inst["resolution"]} if inst else None
            run.violation({"stage": label or module, "module": module, "tlc_cfg": cfg, "invariant": res.violated,
                           "tlc_state": res.state, "trace_id": inst["id"] if inst else None, "cfg": cfgd, "program": prog,
                           "instance": inst,
                           "summary": "%s false for instance %s: adversarial witness pub=%s priv=%s (honest priv=%s)" % (
                               res.violated, inst["id"] if inst else "?", res.state.get("apub"), res.state.get("apriv"), inst["priv"] if inst else "?")})
    run.raise_deferred()
    return results


def brief(ev):
    if not ev:
        return ""
    def lv(s):
        return [("%s:%s" % (x["k"], "wide" if x["w"] else x["v"])) for x in s]
    return "%s %s(%s) -> %s %s" % (ev["op"], ev.get("name", ""), ", ".join(str(lv(a)) for a in ev.get("args", [])), ev["out"], lv(ev.get("res", [])))
