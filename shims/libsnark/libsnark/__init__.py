"""Import-only stand-in for the python-libsnark package (absent in the sandbox), used ONLY to make the two libsnark
registry entries of pysnark loadable in backend-selection checks (C19).  Nothing is claimed about libsnark itself."""
