"""Minimal stand-in: enough surface for `import pysnark.libsnark.backend` and for creating the constants of
pysnark.runtime (LinearCombination algebra over the bn128 scalar field, a protoboard that stores what it is given)."""
_P = 21888242871839275222246405745257275088548364400416034343698204186575808495617


class PbVariable(object):
    _n = 0

    def allocate(self, pb):
        PbVariable._n += 1
        self.index = PbVariable._n
        pb.vars.append(self)


class LinearCombination(object):
    def __init__(self, x=None):
        self.t = {}
        if isinstance(x, PbVariable):
            self.t = {x.index: 1}
        elif isinstance(x, int):
            self.t = {0: x % _P}

    def _mk(self, t):
        r = LinearCombination()
        r.t = {k: v % _P for k, v in t.items() if v % _P}
        return r

    def __add__(self, o):
        t = dict(self.t)
        for k, v in o.t.items():
            t[k] = t.get(k, 0) + v
        return self._mk(t)

    def __sub__(self, o): return self + (-o)
    def __neg__(self): return self._mk({k: -v for k, v in self.t.items()})
    def __mul__(self, k): return self._mk({w: v * k for w, v in self.t.items()})


class R1csConstraint(object):
    def __init__(self, a, b, c): self.a, self.b, self.c = a, b, c


class ProtoboardPub(object):
    def __init__(self):
        self.vars, self.vals, self.public, self.constraints = [], {}, [], []
    def setval(self, v, val): self.vals[v.index] = val
    def setpublic(self, v): self.public.append(v.index)
    def add_r1cs_constraint(self, c): self.constraints.append(c)
    def num_constraints(self): return len(self.constraints)


def fieldinverse(val): return pow(val % _P, _P - 2, _P)
def get_modulus(): return _P
