"""placeholder: reader-side helpers of the real package are not needed by the backend (the checks use their own reader)."""
