"""Minimal FlatBuffers *builder* for the sandbox (the real `flatbuffers` package is not installed and cannot be
fetched).  Implements exactly the Builder calls that pysnark.zkinterface.backend and its generated modules use,
following the documented FlatBuffers wire format (tables with vtables, vectors with a 32-bit length prefix,
little-endian scalars, alignment padding, buffers built back to front, size-prefixed root).

Only on PYTHONPATH for the verification harness.  The reader used by the checks (harness/decoders/zkif.py) is
written separately against zkinterface.fbs and does not share code with this module.
"""
import struct

from . import number_types, compat, table, util, encode, packer  # noqa: F401


class Builder(object):
    MAX_BUFFER_SIZE = 2 ** 31

    def __init__(self, initialSize=1024):
        initialSize = max(int(initialSize), 8)
        self.Bytes = bytearray(initialSize)
        self.head = initialSize
        self.minalign = 1
        self.current_vtable = None
        self.objectEnd = None
        self.vtables = {}
        self.nested = False
        self.finished = False
        self.vectorNumElems = None

    # ------------------------------------------------------------------ low level
    def Offset(self):
        return len(self.Bytes) - self.head

    def _grow(self):
        old = self.Bytes
        n = len(old)
        new = bytearray(2 * n)
        new[n:] = old
        self.Bytes = new
        self.head += n

    def Pad(self, n):
        for _ in range(n):
            self.head -= 1
            self.Bytes[self.head] = 0

    def Prep(self, size, additionalBytes):
        if size > self.minalign:
            self.minalign = size
        alignSize = (~(len(self.Bytes) - self.head + additionalBytes)) + 1
        alignSize &= (size - 1)
        while self.head < alignSize + size + additionalBytes:
            self._grow()
        self.Pad(alignSize)

    def _place(self, fmt, size, x):
        self.head -= size
        struct.pack_into(fmt, self.Bytes, self.head, x)

    def _prepend(self, fmt, size, x):
        self.Prep(size, 0)
        self._place(fmt, size, x)

    def PrependByte(self, x): self._prepend("<B", 1, x & 0xFF if isinstance(x, int) else x)
    def PrependUint8(self, x): self._prepend("<B", 1, x)
    def PrependBool(self, x): self._prepend("<B", 1, 1 if x else 0)
    def PrependUint16(self, x): self._prepend("<H", 2, x)
    def PrependUint32(self, x): self._prepend("<I", 4, x)
    def PrependInt32(self, x): self._prepend("<i", 4, x)
    def PrependUint64(self, x): self._prepend("<Q", 8, x)
    def PrependInt64(self, x): self._prepend("<q", 8, x)
    def PrependVOffsetT(self, x): self._prepend("<H", 2, x)
    def PrependSOffsetTRelative(self, off):
        self.Prep(4, 0)
        self._place("<i", 4, self.Offset() - off + 4)

    def PrependUOffsetTRelative(self, off):
        self.Prep(4, 0)
        if not (off <= self.Offset()):
            raise ValueError("flatbuffers: Offset arithmetic error.")
        self._place("<I", 4, self.Offset() - off + 4)

    # ------------------------------------------------------------------ tables
    def StartObject(self, numfields):
        if self.nested:
            raise ValueError("flatbuffers: object serialization must not be nested")
        self.current_vtable = [0] * numfields
        self.objectEnd = self.Offset()
        self.nested = True

    def Slot(self, slotnum):
        self.current_vtable[slotnum] = self.Offset()

    def _slot_scalar(self, prep, o, x, d):
        if x != d:
            prep(x)
            self.Slot(o)

    def PrependUint8Slot(self, o, x, d): self._slot_scalar(self.PrependUint8, o, x, d)
    def PrependBoolSlot(self, o, x, d): self._slot_scalar(self.PrependBool, o, x, d)
    def PrependUint64Slot(self, o, x, d): self._slot_scalar(self.PrependUint64, o, x, d)
    def PrependInt64Slot(self, o, x, d): self._slot_scalar(self.PrependInt64, o, x, d)
    def PrependUint32Slot(self, o, x, d): self._slot_scalar(self.PrependUint32, o, x, d)

    def PrependUOffsetTRelativeSlot(self, o, x, d):
        if x != d:
            self.PrependUOffsetTRelative(x)
            self.Slot(o)

    def EndObject(self):
        if not self.nested:
            raise ValueError("flatbuffers: EndObject without StartObject")
        self.nested = False
        # placeholder for the offset to the vtable
        self.PrependInt32(0)
        objectOffset = self.Offset()
        vt = list(self.current_vtable)
        while vt and vt[-1] == 0:
            vt.pop()
        objectSize = objectOffset - self.objectEnd
        key = (tuple((objectOffset - off) if off != 0 else 0 for off in vt), objectSize)
        existing = self.vtables.get(key)
        if existing is None:
            for off in reversed(vt):
                self.PrependVOffsetT((objectOffset - off) if off != 0 else 0)
            self.PrependVOffsetT(objectSize)
            self.PrependVOffsetT((len(vt) + 2) * 2)
            vtpos = self.Offset()
            self.vtables[key] = vtpos
            # patch: soffset from object to its vtable (object position minus vtable position)
            struct.pack_into("<i", self.Bytes, len(self.Bytes) - objectOffset, vtpos - objectOffset)
        else:
            struct.pack_into("<i", self.Bytes, len(self.Bytes) - objectOffset, existing - objectOffset)
        self.current_vtable = None
        return objectOffset

    # ------------------------------------------------------------------ vectors
    def StartVector(self, elemSize, numElems, alignment):
        if self.nested:
            raise ValueError("flatbuffers: object serialization must not be nested")
        self.nested = True
        self.vectorNumElems = numElems
        self.Prep(4, elemSize * numElems)
        self.Prep(alignment, elemSize * numElems)
        return self.Offset()

    def EndVector(self, numElems=None):
        if not self.nested:
            raise ValueError("flatbuffers: EndVector without StartVector")
        self.nested = False
        n = self.vectorNumElems if numElems is None else numElems
        self.head -= 4
        struct.pack_into("<I", self.Bytes, self.head, n)
        self.vectorNumElems = None
        return self.Offset()

    def CreateString(self, s):
        b = s.encode("utf8") if isinstance(s, str) else bytes(s)
        self.nested = True
        self.Prep(4, len(b) + 1)
        self.head -= 1
        self.Bytes[self.head] = 0
        self.head -= len(b)
        self.Bytes[self.head:self.head + len(b)] = b
        self.vectorNumElems = len(b)
        return self.EndVector()

    # ------------------------------------------------------------------ finishing
    def _finish(self, rootTable, sizePrefix, file_identifier=None):
        prepSize = 4
        if file_identifier is not None:
            prepSize += 4
        if sizePrefix:
            prepSize += 4
        self.Prep(self.minalign, prepSize)
        if file_identifier is not None:
            for i in range(3, -1, -1):
                self.head -= 1
                self.Bytes[self.head] = file_identifier[i]
        self.PrependUOffsetTRelative(rootTable)
        if sizePrefix:
            size = len(self.Bytes) - self.head
            self.head -= 4
            struct.pack_into("<i", self.Bytes, self.head, size)
        self.finished = True
        return self.head

    def Finish(self, rootTable, file_identifier=None):
        return self._finish(rootTable, False, file_identifier)

    def FinishSizePrefixed(self, rootTable, file_identifier=None):
        return self._finish(rootTable, True, file_identifier)

    def Output(self):
        if not self.finished:
            raise ValueError("flatbuffers: Builder not finished")
        return self.Bytes[self.head:]
