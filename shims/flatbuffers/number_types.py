class _F(object):
    def __init__(self, sz): self.bytewidth = sz
    @staticmethod
    def py_type(x): return int(x)
class BoolFlags(_F): bytewidth = 1; py_type = staticmethod(bool)
class Uint8Flags(_F): bytewidth = 1; py_type = staticmethod(int)
class Uint16Flags(_F): bytewidth = 2; py_type = staticmethod(int)
class Uint32Flags(_F): bytewidth = 4; py_type = staticmethod(int)
class Uint64Flags(_F): bytewidth = 8; py_type = staticmethod(int)
class Int32Flags(_F): bytewidth = 4; py_type = staticmethod(int)
class Int64Flags(_F): bytewidth = 8; py_type = staticmethod(int)
class UOffsetTFlags(Uint32Flags): pass
class SOffsetTFlags(Int32Flags): pass
class VOffsetTFlags(Uint16Flags): pass
