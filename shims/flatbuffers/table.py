"""placeholder: reader-side helpers of the real package are not needed by the backend (the checks use their own reader)."""
class Table(object):
    def __init__(self, buf, pos):
        self.Bytes, self.Pos = buf, pos
