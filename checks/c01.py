"""C01 completeness / C04 value == wire expression: trace validation of programs run on the real code."""
from harness import common, views
from checks import coreprogs

CFGS_QUICK = [{"P": 67, "bitlength": 2, "resolution": 1}, {"P": 257, "bitlength": 3, "resolution": 1}]
CFGS_THOROUGH = [{"P": 67, "bitlength": 2, "resolution": 1}, {"P": 257, "bitlength": 3, "resolution": 2},
                 {"P": 1031, "bitlength": 4, "resolution": 1}, {"P": 13, "bitlength": 2, "resolution": 1},
                 {"P": 32749, "bitlength": 6, "resolution": 3}]


def key(t):
    m = t.get("meta", {})
    return (m.get("op", m.get("kind")), m.get("kinds"), m.get("mode"))


def run_core(prop, tier, tlc_cfg, rule):
    run = common.Run(prop, tier)
    cfgs = CFGS_QUICK if tier == "quick" else CFGS_THOROUGH
    for cfg in cfgs:
        b = cfg["bitlength"]
        t = "quick" if (tier == "quick" or b > 4) else "thorough"
        progs = coreprogs.families(t, common.seed(), b)
        traces = common.run_programs(cfg, progs)
        for tr in traces:
            run.evaluations += len(tr["events"])
            run.nontrivial.add((cfg["P"],) + key(tr))
        if not run.samples:
            run.samples = [{"program": progs[i], "events": len(traces[i]["events"])} for i in (0, len(progs) // 2, len(progs) - 1)]
        res = common.validate_traces(run, "TraceCore", traces, cfg=tlc_cfg, label="P=%d,b=%d" % (cfg["P"], b), props=["C01", "C04"], programs=progs, view=views.core)
        if run.violations:
            break
    return run


def replay(rec):
    """Re-run the recorded program on the current tree and re-validate it with the same trace spec."""
    run = common.Run(rec["property"], "quick")
    traces = common.run_programs(rec["cfg"], [rec["program"]])
    common.validate_traces(run, rec["module"], traces, cfg=rec["tlc_cfg"], label="replay", props=["C01", "C04"],
                           programs=[rec["program"]], view=views.core)
    print("replay: %s" % ("violation reproduced" if run.violations else "no violation on the current tree"))
    return 1 if run.violations else 0
