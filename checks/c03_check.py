"""C03 assertions are enforced in-circuit: Soundness.tla Inv_Enforced / Inv_Complete / Inv_SameRel on constraint systems
captured from the real code with error checks disabled, paired with the run-time verdict of the same call with checks on."""
from harness import common, gen, instances

RULE = ("one instance per assertion kind x operand kinds x operand values straddling every boundary x width x guard mode; constraints captured "
        "with ignore_errors so violating values reach the gadget, run-time acceptance from a second run with checks on; TLC decides the "
        "reference relation (PyRef!Rel), searches every completion of the wires the assertion allocated, and compares the three; "
        "distinct = (prime, assertion, kinds, width, mode, relation true/false) classes")


def programs(tier, b):
    progs = []
    lim = 1 << b
    win = list(range(-lim - 1, lim + 2))
    bs = sorted(set([-lim - 1, -lim, -2, -1, 0, 1, 2, lim - 1, lim, lim + 1]))
    if tier == "quick":
        bs = sorted(set([-lim, -1, 0, 1, lim - 1, lim]))

    def add(pid, meta, build):
        for mode in ("ign", "plain"):
            B = gen.Builder(pid + "/" + mode, mode, None, dict(meta))
            build(B)
            progs.append(B.build())
    for nm in gen.ASSERT2:
        for a in win:
            for bb in bs:
                for kb in ("S", "c"):
                    def build(B, nm=nm, a=a, bb=bb, kb=kb):
                        ra, rb = B.opnd(("S", a)), B.opnd((kb, bb))
                        B.add({"op": "meth", "name": nm, "a": ra, "args": [rb], "tag": "main"})
                    add("b%d/%s/S%s/%d,%d" % (b, nm, kb, a, bb), {"op": nm, "kinds": "S" + kb, "a": a, "b": bb, "n": b}, build)
    for nm in ("assert_zero", "assert_nonzero"):
        for a in win:
            def build(B, nm=nm, a=a):
                B.add({"op": "meth", "name": nm, "a": B.opnd(("S", a)), "tag": "main"})
            add("b%d/%s/S/%d" % (b, nm, a), {"op": nm, "kinds": "S", "a": a, "n": b}, build)
    for nm in ("assert_positive", "to_bits"):
        for n in [None] + list(range(0, b + 3)):
            for a in range(-2, (1 << (b + 2)) + 2):
                def build(B, nm=nm, a=a, n=n):
                    st = {"op": "meth", "name": nm, "a": B.opnd(("S", a)), "tag": "main"}
                    if n is not None:
                        st["kw"] = {"bits": {"c": n}}
                    B.add(st)
                add("b%d/%s/%s/%d" % (b, nm, n, a), {"op": nm, "kinds": "S", "a": a, "n": b if n is None else n, "width": "default" if n is None else "explicit"}, build)
    for (lo, hi) in ((0, 2), (-1, 3), (1, 2), (-lim // 2, lim // 2), (0, 3), (-1, 2), (1, 4), (0, lim - 1)):     # sizes that are and are not powers of two
        for a in win:
            for kk in ("c", "S"):
                def build(B, a=a, lo=lo, hi=hi, kk=kk):
                    ra = B.opnd(("S", a))
                    B.add({"op": "meth", "name": "assert_range", "a": ra, "args": [B.opnd((kk, lo)), B.opnd((kk, hi))], "tag": "main"})
                add("b%d/assert_range/%s/%d/%d,%d" % (b, kk, a, lo, hi), {"op": "assert_range", "kinds": "S" + kk + kk, "a": a, "b": lo, "c": hi, "n": b}, build)
    # boolean forwarding methods
    for nm in gen.ASSERT2:
        for a in (0, 1):
            for bb in (0, 1):
                for kb in ("SB", "c"):
                    def build(B, nm=nm, a=a, bb=bb, kb=kb):
                        ra, rb = B.opnd(("SB", a)), B.opnd((kb, bb))
                        B.add({"op": "meth", "name": nm, "a": ra, "args": [rb], "tag": "main"})
                    add("b%d/bool/%s/SB%s/%d,%d" % (b, nm, kb, a, bb), {"op": nm, "kinds": "SB" + kb, "a": a, "b": bb, "n": b}, build)
    # fixed-point forwarding methods (relation on the representations, resolution 1)
    for nm in gen.ASSERT2:
        for x in range(-3, 4):
            for y in (-2, 0, 1, 3):
                for kb in ("F", "f"):
                    def build(B, nm=nm, x=x, y=y, kb=kb):
                        ra, rb = B.opnd(("F", [x, 2])), B.opnd((kb, [y, 2]))
                        B.add({"op": "meth", "name": nm, "a": ra, "args": [rb], "tag": "main"})
                    add("b%d/fxp/%s/F%s/%d,%d" % (b, nm, kb, x, y), {"op": nm, "kinds": "F" + kb, "a": x, "b": y, "n": b}, build)
    # ... with a boolean-typed or integer-typed secret on the right: it is lifted to fixed point (representation value * 2^resolution)
    for nm in gen.ASSERT2:
        for x in range(-3, 5):
            for (kb, vals) in (("SB", (0, 1)), ("S", (-1, 0, 1, 2))):
                for y in vals:
                    def build(B, nm=nm, x=x, y=y, kb=kb):
                        ra, rb = B.opnd(("F", [x, 2])), B.opnd((kb, y))
                        B.add({"op": "meth", "name": nm, "a": ra, "args": [rb], "tag": "main"})
                    add("b%d/fxp/%s/F%s/%d,%d" % (b, nm, kb, x, y), {"op": nm, "kinds": "F" + kb, "a": x, "b": 2 * y, "n": b}, build)
    # declaring a value boolean
    for fn in ("LinCombBool", "ensurebool"):
        for a in (-1, 0, 1, 2):
            def build(B, fn=fn, a=a):
                B.add({"op": "call", "fn": fn, "args": [B.opnd(("S", a))], "tag": "main"})
            add("b%d/%s/%d" % (b, fn, a), {"op": "bool", "kinds": "S", "a": a, "n": b, "fn": fn}, build)
    # packing: range check on unpack of secret bits
    for mod in (2, 3, 5, 6, 7):
        nb = (mod - 1).bit_length()
        for a in range(0, 1 << nb):
            for typed in ("lincomb", "bool"):
                def build(B, mod=mod, a=a, nb=nb, typed=typed):
                    if typed == "bool":
                        bits = [B.opnd(("SB", (a >> i) & 1)) for i in range(nb)]
                    else:
                        bits = [B.opnd(("S", (a >> i) & 1)) for i in range(nb)]
                    B.add({"op": "unpack", "schema": ["intmod", mod], "a": {"l": bits}, "tag": "main"})
                add("b%d/unpack/%d/%s/%d" % (b, mod, typed, a), {"op": "assert_lt", "kinds": "unpack_" + typed, "a": a, "b": mod, "n": b}, build)
    return progs


def build_insts(run, cfg, tier, select=None):
    progs = [p for p in programs(tier, cfg["bitlength"]) if select is None or select(p["id"])]
    traces = common.run_programs(cfg, progs)
    byid = {t["id"]: t for t in traces}
    insts = []
    for t in traces:
        if not t["id"].endswith("/ign"):
            continue
        tp = byid[t["id"][:-4] + "/plain"]
        mp = [e for e in tp["events"] if e.get("tag") == "main"]
        accepted = bool(mp) and mp[-1]["out"] == "ok"
        inst = instances.from_trace(t, "assert", {"accepted": accepted})
        if inst is None:
            continue
        if inst["out"] != "ok":
            # the call raises even with error checks off (type-level rejection): nothing reaches the circuit
            inst["cons"], inst["order"], inst["readyidx"], inst["res"] = [[[[0, 1]], [], [[0, 1]]]], [], [], []
            inst["pub"], inst["priv"] = inst["pub"][:inst["fixpub"]], inst["priv"][:inst["fixpriv"]]
            inst["hardreject"] = True
        else:
            inst["hardreject"] = False
        inst["res"] = []
        insts.append(inst)
        run.nontrivial.add((cfg["P"], inst["op"], inst["kinds"], inst["n"], accepted))
    run.evaluations += len(insts)
    run.notes.append("P=%d b=%d: %d assertion instances" % (cfg["P"], cfg["bitlength"], len(insts)))
    if len(run.samples) < 2 and insts:
        run.samples.append(insts[len(insts) // 3])
    return progs, insts


def seq_insts(run, cfg):
    """The same object is asserted twice, the first time inside a region whose guard is 0 (or plainly): whatever the first
    assertion left behind, the second must still be enforced.  End-to-end instances captured with error checks off."""
    asserts = {
        "bool": (lambda r: {"op": "call", "fn": "LinCombBool", "args": [r]}, [0, 1, 2, 3], "bool", 0),
        "ensurebool": (lambda r: {"op": "call", "fn": "ensurebool", "args": [r]}, [0, 1, 2], "bool", 0),
        "assert_positive": (lambda r: {"op": "meth", "name": "assert_positive", "a": r, "kw": {"bits": {"c": 1}}}, [0, 1, 2, 3], "assert_positive", 1),
        "to_bits": (lambda r: {"op": "meth", "name": "to_bits", "a": r, "kw": {"bits": {"c": 1}}}, [0, 1, 2], "to_bits", 1),
        "assert_lt": (lambda r: {"op": "meth", "name": "assert_lt", "a": r, "args": [{"c": 2}]}, [0, 1, 2, 3], "assert_lt", 2),
        "assert_zero": (lambda r: {"op": "meth", "name": "assert_zero", "a": r}, [0, 1], "assert_zero", 0),
    }
    first = {
        "same": None,
        "wider_bits": lambda r: {"op": "meth", "name": "to_bits", "a": r},
        "bool": lambda r: {"op": "call", "fn": "LinCombBool", "args": [r]},
    }
    progs = []
    for nm, (mk, vals, op, bparam) in asserts.items():
        for fnm, fmk in first.items():
            for v in vals:
                for g in ("none", 0) + (("exc", "excdiv") if fnm == "same" else ()):
                    for mode in ("ign", "plain"):
                        B = gen.Builder("seq/%s/%s/%d/%s/%s" % (nm, fnm, v, g, mode), mode, None,
                                        {"op": op, "kinds": "S", "a": v, "b": bparam, "n": bparam if op in ("assert_positive", "to_bits") else cfg["bitlength"]})
                        rx = B.opnd(("S", v))
                        f1 = (fmk or mk)(rx)
                        if g == "none":
                            B.add(f1)
                        elif g in ("exc", "excdiv"):
                            # a region whose guard is 0 is left through an exception that the program catches (a user exception,
                            # a division by a zero-valued secret): nothing of the region may linger when the assertion is made
                            bad = {"op": "raise"} if g == "exc" else {"op": "bin", "name": "truediv", "a": rx, "b": B.opnd(("S", 0))}
                            B.add({"op": "try", "body": [{"op": "guarded", "cond": B.opnd(("SB", 0)), "body": [bad]}]})
                        else:
                            B.add({"op": "guarded", "cond": B.opnd(("SB", 0)), "body": [f1]})
                        st = mk(rx)
                        st["tag"] = "main"
                        B.add(st)
                        progs.append(B.build())
    traces = common.run_programs(cfg, progs, fresh=True)       # one interpreter each: these programs are about what survives between calls
    byid = {t["id"]: t for t in traces}
    insts = []
    for t in traces:
        if not t["id"].endswith("/ign"):
            continue
        tp = byid[t["id"][:-4] + "/plain"]
        mp = [e for e in tp["events"] if e.get("tag") == "main"]
        accepted = bool(mp) and mp[-1]["out"] == "ok" and all(e["out"] == "ok" for e in tp["events"])
        # only programs whose FIRST step is accepted with checks on are meaningful for SameRel; enforcement is judged for all
        inst = instances.from_trace_e2e(t, "assert", {"accepted": accepted})
        if inst is None or inst["out"] != "ok":
            continue
        first_ok = all(e["out"] == "ok" for e in tp["events"] if e.get("tag") != "main" and e["op"] != "end") or not mp
        inst["skip_samerel"] = False
        if not first_ok:
            inst["accepted"] = False
            inst["skip_samerel"] = True
        inst["res"] = []
        insts.append(inst)
        run.nontrivial.add((cfg["P"], "seq", inst["op"], t["meta"].get("mode")))
    run.evaluations += len(insts)
    run.notes.append("P=%d: %d end-to-end assertion sequences on one object" % (cfg["P"], len(insts)))
    return progs, insts


def free_insts(run, cfg, tier):
    """One accepted instance per (assertion, kinds, width): all wires free, TLC covers every operand value of the field."""
    progs = [p for p in programs("quick", cfg["bitlength"]) if p["id"].endswith("/plain")
             and p["meta"]["kinds"] in ("S", "SS", "Sc", "Scc", "SSS", "SBSB", "SBc")]
    traces = common.run_programs(cfg, progs)
    seen, insts = set(), []
    for t in traces:
        m = t["meta"]
        key = (m["op"], m["kinds"], m.get("n"), m.get("fn"))
        mp = [e for e in t["events"] if e.get("tag") == "main"]
        if key in seen or not mp or mp[-1]["out"] != "ok" or any(e["out"] != "ok" for e in t["events"]):
            continue
        if m["op"] == "assert_range" and m["kinds"] == "Scc" and False:
            continue
        seen.add(key)
        inst = instances.free_operands(t, m["kinds"])
        insts.append(inst)
        run.nontrivial.add((cfg["P"], "free") + key)
    run.evaluations += len(insts)
    run.notes.append("P=%d b=%d: %d free-operand instances (every operand value of the field)" % (cfg["P"], cfg["bitlength"], len(insts)))
    if insts:
        run.samples.append(insts[0])
    return progs, insts


def main(tier):
    run = common.Run("C03", tier)
    fcfgs = [{"P": 13, "bitlength": 2, "resolution": 1}] if tier == "quick" else \
        [{"P": 13, "bitlength": 2, "resolution": 1}, {"P": 67, "bitlength": 2, "resolution": 1}, {"P": 37, "bitlength": 3, "resolution": 1}]
    for cfg in fcfgs:
        progs, insts = free_insts(run, cfg, tier)
        common.validate_insts(run, "Soundness", insts, cfg="Soundness_C03.cfg", label="free,P=%d,b=%d" % (cfg["P"], cfg["bitlength"]),
                              programs=progs, chunk=8, parallel=8, props=["C03", "C16"])
        if run.violations:
            return run.finish(RULE)
    cfgs = [{"P": 67, "bitlength": 2, "resolution": 1}]
    if tier != "quick":
        cfgs += [{"P": 257, "bitlength": 3, "resolution": 1}]
    for cfg in cfgs:
        progs, insts = build_insts(run, cfg, tier)
        common.validate_insts(run, "Soundness", insts, cfg="Soundness_C03.cfg", label="P=%d,b=%d" % (cfg["P"], cfg["bitlength"]),
                              programs=progs, chunk=400, parallel=8, props=["C03", "C16"])
        if run.violations:
            break
    if not run.violations:
        scfg = {"P": 13, "bitlength": 2, "resolution": 1}
        sp, si = seq_insts(run, scfg)
        common.validate_insts(run, "Soundness", si, cfg="Soundness_C03seq.cfg", label="sequences on one object, end to end", programs=sp, chunk=12, parallel=8, props=["C03", "C16"])
    run.exhaustive = True
    return run.finish(RULE, assumptions=["small-prime instantiation with no-wrap margin P > 2^(2b+2)", "operands fixed to the recorded values; every wire the assertion allocates is adversarial"],
                      trusted=["TLC 1.8", "harness observers (recorder, driver, instances)"])


def replay(rec):
    run = common.Run("C03", "quick")
    inst = rec["instance"]
    cfg = rec["cfg"]
    if inst["mode"] == "assert_free":
        progs, insts = free_insts(run, cfg, "quick")
        insts = [i for i in insts if i["id"] == inst["id"]]
        common.validate_insts(run, "Soundness", insts, cfg="Soundness_C03.cfg", label="replay", props=["C03", "C16"])
        print("replay: %s" % ("violation reproduced" if run.violations else "no violation on the current tree"))
        return 1 if run.violations else 0
    pid = inst["id"][:-4]
    if pid.startswith("seq/"):
        # end-to-end sequence instances are rebuilt as a family (each needs its checks-on twin)
        progs, insts = seq_insts(run, cfg)
        insts = [i for i in insts if i["id"] == inst["id"]]
        common.validate_insts(run, "Soundness", insts, cfg="Soundness_C03seq.cfg", label="replay", props=["C03", "C16"], programs=progs)
        print("replay: %s" % ("violation reproduced" if run.violations else "no violation on the current tree"))
        return 1 if run.violations else 0
    progs = [p for p in programs("thorough", cfg["bitlength"]) if p["id"] in (pid + "/ign", pid + "/plain")]
    traces = common.run_programs(cfg, progs)
    byid = {t["id"]: t for t in traces}
    mp = [e for e in byid[pid + "/plain"]["events"] if e.get("tag") == "main"]
    i2 = instances.from_trace(byid[pid + "/ign"], "assert", {"accepted": bool(mp) and mp[-1]["out"] == "ok"})
    i2["hardreject"] = i2["out"] != "ok"
    if i2["hardreject"]:
        i2["cons"], i2["order"], i2["readyidx"] = [[[[0, 1]], [], [[0, 1]]]], [], []
        i2["pub"], i2["priv"] = i2["pub"][:i2["fixpub"]], i2["priv"][:i2["fixpriv"]]
    i2["res"] = []
    common.validate_insts(run, "Soundness", [i2], cfg="Soundness_C03.cfg", label="replay", props=["C03", "C16"])
    print("replay: %s" % ("violation reproduced" if run.violations else "no violation on the current tree"))
    return 1 if run.violations else 0
