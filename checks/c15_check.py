"""C15: secret-index array access reads and writes exactly one element (ArrayMem.tla histories replayed, TraceArray.tla),
out-of-range indices are refused in-circuit (Soundness.tla), constraints identical for every index value (TraceShape.tla)."""
import json
import os

from harness import common, tlc, instances, views, gen

RULE = ("all histories of 1..3 reads/writes at secret or public indices in -1..len on 1-D arrays of length 1..3 next to a second array of length 2, "
        "a 2x2 and a 3x2 array (cells a mix of secrets and constants; index objects fresh, re-used from the previous access, or shared between "
        "row and column), "
        "and constants), generated exhaustively by TLC from ArrayMem.tla and replayed into the real code, contents of every cell compared after "
        "each access; plus unsatisfiability of out-of-range indices, uniqueness of read values / written cells, shape equality over index values")


def gen_histories(run, maxlen, emit=True, sample=None):
    """emit: print every history of exactly maxlen accesses; sample=(num, seed): random behaviours instead of the full graph"""
    with common.scratch("gen_") as d:
        cf = os.path.join(d, "gen.cfg")
        with open(cf, "w") as f:
            f.write("SPECIFICATION Spec\nCONSTANT MaxLen = %d\nPROPERTY WriteOne\n%sCHECK_DEADLOCK FALSE\n" % (maxlen, "INVARIANT Emit\n" if emit else ""))
        if sample:
            res = tlc.run("ArrayMem", cfg=cf, workers=1, simulate="num=%d" % sample[0], depth=maxlen + 1, seed=sample[1])
        else:
            res = tlc.run("ArrayMem", cfg=cf, workers=8, heap="8g")
    run.add_tlc(res, "ArrayMem %s, %d accesses" % ("random behaviours" if sample else ("generator" if emit else "design check (WriteOne)"), maxlen))
    if res.violated:
        run.violation({"stage": "design", "invariant": res.violated, "tlc_state": res.state, "summary": "ArrayMem.tla violates its own sanity property"})
    return [json.loads(json.loads(r)) for r in sorted(set(res.tagged("BEH")))]


def to_program(pid, h, mode="plain"):
    steps = []

    def add(st):
        steps.append(st)
        return {"r": len(steps) - 1}          # every step fills exactly one register

    def cell(v, k):
        return add({"op": "new", "kind": "priv", "ty": "int", "v": v}) if k % 2 == 0 else {"c": v}
    brr = None
    if h["dim"] == 1:
        arr = add({"op": "call", "fn": "Array", "args": [{"l": [cell(v, k) for k, v in enumerate(h["arr0"])]}]})
        brr = add({"op": "call", "fn": "Array", "args": [{"l": [cell(5, 0), cell(6, 1)]}]})
    else:
        rows = []
        for ri, row in enumerate(h["arr0"]):
            rows.append(add({"op": "call", "fn": "Array", "args": [{"l": [cell(v, k + ri) for k, v in enumerate(row)]}]}))
        arr = add({"op": "call", "fn": "Array", "args": [{"l": rows}]})
    prev = None                                # the secret index OBJECT of the previous access
    for a in h["hist"]:
        def idx(v, k):
            return {"c": v} if k == "p" else add({"op": "new", "kind": "priv", "ty": "int", "v": v})
        re = a.get("re", "n")
        i = prev if re == "p" else (idx(a["i"], a["ik"]) if a["a"] not in ("copyrow", "copyrow2") else None)
        tgt = brr if a["a"] in ("getb", "setb") else arr
        if a["a"] in ("get", "getrow", "getb"):
            add({"op": "getitem", "a": tgt, "i": i, "tag": "acc"})
        elif a["a"] in ("set", "setb"):
            if a.get("cnd", -1) >= 0:
                # the write sits in an oblivious branch on a context holding the array; the merged array replaces it afterwards
                add({"op": "branchset", "a": arr, "cond": add({"op": "new", "kind": "priv", "ty": "bool", "v": a["cnd"]}), "i": i, "v": idx(a["v"], "s"), "tag": "acc"})
            else:
                add({"op": "setitem", "a": tgt, "i": i, "v": idx(a["v"], "s"), "tag": "acc"})
        elif a["a"] == "get2":
            j = i if re == "d" else idx(a["j"], a["jk"])
            add({"op": "getitem", "a": arr, "i": {"l": [i, j]}, "tag": "acc"})
        elif a["a"] == "set2":
            j = i if re == "d" else idx(a["j"], a["jk"])
            if a.get("cnd", -1) >= 0:
                add({"op": "branchset", "a": arr, "cond": add({"op": "new", "kind": "priv", "ty": "bool", "v": a["cnd"]}), "i": {"l": [i, j]}, "v": {"c": a["v"]}, "tag": "acc"})
            else:
                add({"op": "setitem", "a": arr, "i": {"l": [i, j]}, "v": {"c": a["v"]}, "tag": "acc"})
        elif a["a"] == "copyrow2":
            add({"op": "copyrow", "a": arr, "dst": 0, "dst2": 1, "src": idx(a["j"], a["jk"]), "tag": "acc"})
        elif a["a"] == "copyrow":
            # m[dst] = m[src]: a compound statement -- read the row (may raise), then store it at the public position
            add({"op": "copyrow", "a": arr, "dst": a["i"], "src": idx(a["j"], a["jk"]), "tag": "acc"})
        prev = i if (a["a"] not in ("copyrow", "copyrow2") and a["ik"] == "s") else None
        add({"op": "peek", "a": arr if brr is None else {"l": [arr, brr]}, "tag": "peek"})
    return {"id": pid, "ign": False, "steps": steps, "meta": {"hist": h}}


def view(tr):
    h = tr["meta"]["hist"]
    evs = []
    acc = [e for e in tr["events"] if e.get("tag") in ("acc", "peek")]
    for k in range(0, len(acc) - 1, 2):
        a, p = acc[k], acc[k + 1]
        spec = h["hist"][k // 2]
        evs.append({"a": spec["a"], "i": spec["i"], "j": spec["j"], "v": spec["v"], "ik": spec["ik"], "jk": spec["jk"], "re": spec.get("re", "n"), "cnd": spec.get("cnd", -1), "out": a["out"],
                    "ret": [x["v"] for x in a["res"]] if a["out"] == "ok" else [], "cells": [x["v"] for x in p["res"]], "seq": a["seq"]})
    return {"id": tr["id"], "dim": h["dim"], "arr0": h["arr0"], "events": evs}


def index_insts(run, cfg):
    """Out-of-range indices: captured with error checks off, must be unsatisfiable; in-range accepted."""
    progs = []
    for n in (1, 2, 3):
        for idx in range(-2, n + 2):
            for what in ("get", "set"):
                for mode in ("ign", "plain"):
                    B = gen.Builder("idx/%s/%d/%d/%s" % (what, n, idx, mode), mode, None, {"op": "index", "kinds": "S", "a": idx, "b": n, "n": cfg["bitlength"]})
                    items = [B.opnd(("S", k + 1)) if k % 2 == 0 else {"c": k + 1} for k in range(n)]
                    ri = B.opnd(("S", idx))
                    rv = B.opnd(("S", 5))
                    base = B.nreg
                    B.add({"op": "call", "fn": "Array", "args": [{"l": items}]})
                    if what == "get":
                        B.add({"op": "getitem", "a": {"r": base}, "i": ri, "tag": "main"})
                    else:
                        B.add({"op": "setitem", "a": {"r": base}, "i": ri, "v": rv, "tag": "main"})
                    progs.append(B.build())
    traces = common.run_programs(cfg, progs)
    byid = {t["id"]: t for t in traces}
    insts = []
    for t in traces:
        if not t["id"].endswith("/ign"):
            continue
        tp = byid[t["id"][:-4] + "/plain"]
        mp = [e for e in tp["events"] if e.get("tag") == "main"]
        inst = instances.from_trace(t, "assert", {"accepted": bool(mp) and mp[-1]["out"] == "ok"})
        if inst is None or inst["out"] != "ok":
            continue
        inst["res"] = []
        insts.append(inst)
    run.evaluations += len(insts)
    return progs, insts


def main(tier):
    run = common.Run("C15", tier)
    cfg = {"P": 257, "bitlength": 3, "resolution": 1}
    hists = []
    for ml in (1, 2):
        hists += gen_histories(run, ml)
    if tier != "quick":
        # three accesses: the reference itself is model checked exhaustively (14.6M states); replayed into the code is a seeded random
        # sample of those histories (all of them would be 14M program runs)
        gen_histories(run, 3, emit=False)
        h3 = gen_histories(run, 3, sample=(900, common.seed()))
        run.notes.append("%d random histories of 3 accesses replayed" % len(h3))
        hists += h3
    if tier == "quick":
        # quick: all histories of 1 access, every 2-access history on 1-D arrays, every fifth on the 2x2 array but ALL of those
        # that start with a row copy
        def special(h):
            return any(a["re"] != "n" or a["cnd"] >= 0 for a in h["hist"])

        def thin(hs, target):
            st = max(1, len(hs) // target)
            return hs[::st]
        one = [h for h in hists if len(h["hist"]) == 1]
        two = [h for h in hists if len(h["hist"]) == 2]
        hists = one + thin([h for h in two if h["dim"] == 1 and not special(h)], 3000) + thin([h for h in two if h["dim"] == 2 and not special(h)], 4000) \
            + thin([h for h in two if special(h)], 9000) + thin([h for h in two if h["hist"][0]["a"] == "copyrow"], 1500) + [h for h in two if h["hist"][0]["a"] == "copyrow2" and h["hist"][1]["a"] in ("set2", "get2", "getrow")][::3]
    progs = [to_program("h%d" % i, h) for i, h in enumerate(hists)]
    traces = common.run_programs(cfg, progs)
    for h in hists:
        run.nontrivial.add(json.dumps(h))
    run.evaluations += len(hists)
    run.samples = [{"history": hists[len(hists) // 2], "program": progs[len(hists) // 2]["steps"]}]
    run.exhaustive = False   # histories of 1 and 2 accesses: all (thorough) or a stratified subset (quick); 3 accesses: sampled
    common.validate_traces(run, "TraceArray", traces, cfg="TraceArray.cfg", label="list semantics", programs=progs, view=view, chunk=1500, parallel=8)
    if not run.violations:
        common.validate_traces(run, "TraceCore", traces, cfg="TraceCore.cfg", label="Sat + value==wire on the same runs", programs=progs, view=views.core, props=["C15"])
    if not run.violations:
        p2, insts = index_insts(run, cfg)
        common.validate_insts(run, "Soundness", insts, cfg="Soundness_C03.cfg", label="index bounds enforced in-circuit", programs=p2, chunk=20, parallel=8, props=["C15"])
    if not run.violations:
        # uniqueness of the value read / of every cell after a write (in-range indices)
        p3 = []
        for n in (1, 2, 3):
            for idx in range(n):
                for what in ("get", "set"):
                    B = gen.Builder("uniq/%s/%d/%d" % (what, n, idx), "plain", None, {"op": "array_" + what, "kinds": "S", "a": idx, "b": n})
                    items = [B.opnd(("S", k + 1)) if k % 2 == 0 else {"c": k + 1} for k in range(n)]
                    ri, rv = B.opnd(("S", idx)), B.opnd(("S", 5))
                    base = B.nreg
                    B.add({"op": "call", "fn": "Array", "args": [{"l": items}]})
                    B.add({"op": "getitem", "a": {"r": base}, "i": ri, "tag": "main"} if what == "get" else
                          {"op": "setitem", "a": {"r": base}, "i": ri, "v": rv, "tag": "main"})
                    p3.append(B.build())
        t3 = common.run_programs({"P": 67, "bitlength": 2, "resolution": 1}, p3)
        i3 = [i for i in (instances.from_trace(t, "unique") for t in t3) if i and i["out"] == "ok" and i["res"]]
        common.validate_insts(run, "Soundness", i3, cfg="Soundness_C02.cfg", label="read value / written cells unique", programs=p3, chunk=4, parallel=8, props=["C15"])
    if not run.violations:
        # identical constraints for every index value (incl. out-of-range with checks off)
        groups = {}
        for p, t in zip(progs, traces):
            h = p["meta"]["hist"]
            key = json.dumps([h["dim"], h["arr0"], [[a["a"], a["v"], a["ik"], a["jk"], a["re"], a["cnd"] >= 0] + ([a["i"]] if a["ik"] == "p" else []) + ([a["j"]] if a["jk"] == "p" else []) for a in h["hist"]]])
            groups.setdefault(key, []).append(t)
        gl = []
        for kk, ts in groups.items():
            complete = [t for t in ts if all(e["out"] == "ok" for e in t["events"])]
            if len(complete) >= 2:
                gl.append({"ref": views.shape(complete[0]), "others": [views.shape(t) for t in complete[1:]]})
        from concurrent.futures import ThreadPoolExecutor
        chunks = [gl[i:i + 20] for i in range(0, len(gl), 20)]
        with ThreadPoolExecutor(8) as ex:
            results = list(ex.map(lambda ch: common._tlc_on_chunk("TraceShape", "TraceShape.cfg", {"groups": ch}, 2, False, False, "3g"), chunks))
        for ci, (ch, res) in enumerate(zip(chunks, results)):
            run.add_tlc(res, "shape over index values #%d" % ci)
            if res.violated:
                g = ch[int(res.state["gid"]) - 1]
                o = g["others"][int(res.state["k"]) - 1]
                run.violation({"stage": "shape", "invariant": res.violated, "tlc_state": res.state, "cfg": cfg,
                               "program": next(p for p in progs if p["id"] == g["ref"]["id"]), "program_b": next(p for p in progs if p["id"] == o["id"]),
                               "summary": "constraints differ between index values: runs %s and %s" % (g["ref"]["id"], o["id"])})
    return run.finish(RULE, assumptions=["indices are secret integers; contents are a mix of secrets and constants"], trusted=["TLC 1.8", "harness observers"])


def replay(rec):
    run = common.Run("C15", "quick")
    if rec.get("program") and "hist" in rec["program"].get("meta", {}):
        traces = common.run_programs(rec["cfg"], [rec["program"]])
        common.validate_traces(run, "TraceArray", traces, cfg="TraceArray.cfg", label="replay", programs=[rec["program"]], view=view)
        print("replay: %s" % ("violation reproduced" if run.violations else "no violation on the current tree"))
        return 1 if run.violations else 0
    return main("quick")
