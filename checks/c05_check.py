"""C05: traced arithmetic agrees with Python integer semantics (PyRef.tla) or raises; no raise inside the documented domain."""
from harness import common, gen, views

RULE = ("every operator and reflected operator of secret integers and booleans x three operand-kind combinations x all values in "
        "-2^b-1..2^b+1 x bitlengths, unguarded and under a true guard, plus seeded random expression programs with every node judged; "
        "TLC evaluates PyRef!Apply on the logged operand values; distinct = (bitlength, op, kinds, mode) classes")


def pairs(v):
    return [(a, b) for a in v for b in v]


def programs(tier, b, seed):
    progs = []
    win = gen.window(b, 1)
    lim = 1 << (b - 1)
    pw = pairs(win)
    if tier == "quick" and b >= 4:
        pw = pairs([v for v in win if abs(v) <= lim + 1 or abs(v) >= (1 << b) - 1])
    ops = gen.BIN_ARITH + gen.BIN_CMP
    progs += gen.binop_programs("b%d" % b, ops, pw, gen.kinds3(), ["plain"])
    progs += gen.binop_programs("b%d" % b, ops, pairs([-lim - 1, -lim, -1, 0, 1, 2, lim - 1, lim]), gen.kinds3(), ["g1"])
    progs += gen.binop_programs("b%d" % b, ["pow", "lshift", "rshift"], [(a, k) for a in win for k in (-2, -1)], [("S", "c")], ["plain"])
    progs += gen.binop_programs("b%d" % b, ops, pairs([-2, 0, 1, 3]), [("U", "S"), ("S", "K"), ("K", "S")], ["plain"])
    progs += gen.unop_programs("b%d" % b, gen.UN, win, ["plain", "g1"])
    progs += gen.meth_programs("b%d" % b, gen.CHECK1, win, ["plain", "g1"])
    progs += gen.ite_programs("b%d" % b, pairs([-lim, -1, 0, 1, lim - 1]), ["plain", "g1"])
    for c in (0, 1):
        for (t, f) in pairs([-2, 0, 3]):
            for kc in ("S", "SB"):
                B = gen.Builder("b%d/if_else/%s/%d/%d,%d" % (b, kc, c, t, f), "plain", None, {"op": "if_else", "kinds": kc})
                rc, rt_, rf = B.opnd((kc, c)), B.opnd(("S", t)), B.opnd(("c", f))
                B.add({"op": "meth", "name": "if_else", "a": rc, "args": [rt_, rf], "tag": "main"})
                progs.append(B.build())
    bv = [0, 1]
    progs += gen.binop_programs("b%d/bool" % b, ["and", "or", "xor", "add", "sub", "mul", "pow"] + gen.BIN_CMP, pairs(bv),
                                [("SB", "SB"), ("SB", "cb"), ("cb", "SB"), ("SB", "c"), ("c", "SB"), ("SB", "S"), ("S", "SB"), ("UB", "SB")], ["plain", "g1"])
    progs += gen.binop_programs("b%d/bool" % b, ["pow"], [(x, e) for x in bv for e in (0, 1, 2, 3)], [("SB", "c"), ("SB", "S")], ["plain"])
    # a secret boolean next to an integer OUTSIDE {0,1} (constant or secret, either side): comparisons and arithmetic must agree with
    # Python on the numbers (True == 1) or raise -- never coerce the integer by truthiness
    nb = [-1, 2, 3]
    progs += gen.binop_programs("b%d/boolint" % b, ["add", "sub", "mul"] + gen.BIN_CMP, [(x, y) for x in bv for y in nb],
                                [("SB", "c"), ("SB", "S"), ("SB", "U")], ["plain", "g1"])
    progs += gen.binop_programs("b%d/boolint" % b, ["add", "sub", "mul"] + gen.BIN_CMP, [(y, x) for x in bv for y in nb],
                                [("c", "SB"), ("S", "SB"), ("U", "SB")], ["plain", "g1"])
    progs += gen.unop_programs("b%d/bool" % b, ["invert", "neg", "pos", "abs"], bv, ["plain", "g1"], kinds=("SB",))
    # arithmetic AFTER a guarded region was left through an exception that the caller caught: everything must still agree
    # with Python (a guard, an ignore flag or a rescaled constant leaking out of the region changes later values silently)
    k = 0
    for (op, a_, c_) in [(o, x, y) for o in ("add", "mul", "lt", "truediv", "floordiv", "pow", "eq", "rshift", "sub") for (x, y) in ((3, 1), (-2, 2), (1, 3))]:
        for how in ("zerodiv", "assert", "user", "lazy"):
            B = gen.Builder("b%d/afterexc/%s/%s/%d,%d" % (b, how, op, a_, c_), "plain", None, {"op": op, "kinds": "afterexc-" + how})
            rx, ry, rz, rg = B.opnd(("S", a_)), B.opnd(("S", c_)), B.opnd(("S", 0)), B.opnd(("SB", 0))
            bad = {"zerodiv": {"op": "bin", "name": "floordiv", "a": rx, "b": rz}, "assert": {"op": "meth", "name": "assert_lt", "a": rx, "args": [{"s": "x"}]},
                   "user": {"op": "raise"}, "lazy": {"op": "bin", "name": "floordiv", "a": rx, "b": rz}}[how]
            if how == "lazy":
                B.add({"op": "try", "body": [{"op": "ite", "cond": rg, "t": {"body": [bad], "ret": rx}, "f": ry}]})
            else:
                B.add({"op": "try", "body": [{"op": "guarded", "cond": rg, "body": [bad]}]})
            B.add({"op": "bin", "name": op, "a": rx, "b": ry, "tag": "main"})
            B.add({"op": "bin", "name": op, "a": rx, "b": {"c": c_}, "tag": "main"})
            B.add({"op": "meth", "name": "check_zero", "a": rz})
            progs.append(B.build())
    ops1 = {"rshift": lambda r: {"op": "bin", "name": "rshift", "a": r, "b": {"c": 1}}, "to_bits": lambda r: {"op": "meth", "name": "to_bits", "a": r},
            "lt": lambda r: {"op": "bin", "name": "lt", "a": r, "b": {"c": 0}}, "and": lambda r: {"op": "bin", "name": "and", "a": r, "b": {"c": 1}},
            "abs": lambda r: {"op": "un", "name": "abs", "a": r}, "bool": lambda r: {"op": "call", "fn": "ensurebool", "args": [r]}}
    ops2 = {"rshift": lambda r: {"op": "bin", "name": "rshift", "a": r, "b": {"c": 1}}, "or": lambda r: {"op": "bin", "name": "or", "a": r, "b": r},
            "xor": lambda r: {"op": "bin", "name": "xor", "a": r, "b": r}, "invert": lambda r: {"op": "un", "name": "invert", "a": r},
            "lt": lambda r: {"op": "bin", "name": "lt", "a": r, "b": {"c": 1}}, "abs": lambda r: {"op": "un", "name": "abs", "a": r},
            "pow": lambda r: {"op": "bin", "name": "pow", "a": {"c": 2}, "b": r}, "check_positive": lambda r: {"op": "meth", "name": "check_positive", "a": r}}
    lim_ = 1 << (b - 1)
    for n1, f1 in ops1.items():
        for n2, f2 in ops2.items():
            for x in (-lim_ - 1, -lim_, -1, 0, 1, lim_ - 1, lim_, lim_ + 1, 2 * lim_):
                for how in ("g0", "ign"):
                    B = gen.Builder("b%d/sameobj/%s-%s/%d/%s" % (b, n1, n2, x, how), "plain", None, {"op": n2, "kinds": "sameobj-" + how})
                    rx = B.opnd(("S", x))
                    if how == "g0":
                        B.add({"op": "guarded", "cond": B.opnd(("SB", 0)), "body": [f1(rx)]})
                    else:
                        B.add({"op": "ignore", "v": True})
                        B.add({"op": "try", "body": [f1(rx)]})
                        B.add({"op": "ignore", "v": False})
                    st = f2(rx)
                    st["tag"] = "main"
                    B.add(st)
                    progs.append(dict(B.build(), fresh=True))      # an interpreter of its own: about state surviving between calls
    rg = gen.RandGen(seed * 7919 + b, b)
    n = 400 if tier == "quick" else 6000
    for i in range(n):
        progs.append(rg.program("b%d/rand/%d" % (b, i), rg.rnd.randint(2, 5 if tier == "quick" else 9), ["plain", "plain", "g1"][i % 3]))
    return progs


CFGS = {"quick": [{"P": 67, "bitlength": 2}, {"P": 1031, "bitlength": 4}],
        "thorough": [{"P": 67, "bitlength": 2}, {"P": 257, "bitlength": 3}, {"P": 1031, "bitlength": 4}, {"P": 4099, "bitlength": 5}, {"P": 16411, "bitlength": 6}]}


def main(tier):
    run = common.Run("C05", tier)
    for cfg in CFGS[tier]:
        cfg = dict(cfg, resolution=1)
        progs = programs(tier if cfg["bitlength"] < 6 else "quick", cfg["bitlength"], common.seed())
        traces = common.run_programs(cfg, progs)
        for t in traces:
            run.evaluations += len(t["events"])
            m = t.get("meta", {})
            run.nontrivial.add((cfg["bitlength"], m.get("op", m.get("kind")), m.get("kinds"), m.get("mode")))
        if not run.samples:
            run.samples = [progs[0], progs[len(progs) // 2]]
        common.validate_traces(run, "TraceRef", traces, cfg="TraceRef.cfg", label="P=%d,b=%d" % (cfg["P"], cfg["bitlength"]),
                               programs=progs, view=views.ref, chunk=4000, parallel=8)
        if run.violations:
            break
    return run.finish(RULE, assumptions=["integer shadow values are compared exactly (they are Python ints, not residues)",
                                         "documented domain as formalised in TraceRef!InDomain"],
                      trusted=["TLC 1.8", "harness observers"])


def replay(rec):
    run = common.Run("C05", "quick")
    traces = common.run_programs(rec["cfg"], [rec["program"]])
    common.validate_traces(run, "TraceRef", traces, cfg="TraceRef.cfg", label="replay", programs=[rec["program"]], view=views.ref)
    print("replay: %s" % ("violation reproduced" if run.violations else "no violation on the current tree"))
    return 1 if run.violations else 0
