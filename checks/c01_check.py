from checks import c01

RULE = ("every operator/assertion/conversion/selection/array access x operand kinds x operand values in the window "
        "-2^b-1..2^b+1 x guard/ignore modes, plus seeded random compositions, run on the real code over a small prime; "
        "distinct = (prime, operation, operand kinds, mode) classes; an event is one public API call")


def repo_tests_under_recorder(run):
    """The repository's own 75 tests, re-run on the recording backend; TLC evaluates Inv_Sat on what each test traced."""
    import json
    import os
    import subprocess
    from harness import common
    with common.scratch("rt_") as d:
        out = os.path.join(d, "traces.json")
        env = common.child_env({"VERIF_ROOT": common.ROOT, "VERIF_REC_P": "32749", "VERIF_REC_OUT": out,
                                "PYTHONPATH": os.path.join(common.ROOT, "harness", "pytest_plugin") + os.pathsep + common.ROOT + os.pathsep + common.REPO})
        p = subprocess.run([common.PY, "-m", "pytest", "-q", "-p", "no:cacheprovider", "-p", "verif_recorder", os.path.join(common.REPO, "test")],
                           cwd=d, env=env, stdout=subprocess.PIPE, stderr=subprocess.STDOUT, timeout=1800)
        if not os.path.exists(out):
            raise common.MachineryError("repository tests under the recorder produced no traces: " + p.stdout.decode("utf8", "replace")[-1500:])
        traces = json.load(open(out))["traces"]
    judged = [t for t in traces if t["events"][1]["out"] == "ok"]
    run.notes.append("repository tests under the recorder: %d tests traced, %d without a provoked exception judged" % (len(traces), len(judged)))
    run.evaluations += len(judged)
    for t in judged:
        run.nontrivial.add(("repo-test", t["id"]))
    res = common.validate_traces(run, "TraceCore", traces, cfg="TraceCore_C01.cfg", label="repository tests under the recorder", props=["C01", "C04"], chunk=100, parallel=4)
    return res


def main(tier):
    run = c01.run_core("C01", tier, "TraceCore_C01.cfg", RULE)
    if not run.violations:
        repo_tests_under_recorder(run)
    if not run.violations:
        from checks import tracer_conf
        tracer_conf.run_conformance(run, tier)
    return run.finish(RULE, assumptions=["constraints are judged modulo the recording backend's small prime; the library is field-parametric",
                                         "the recording backend's witness lists are append-only"],
                      trusted=["TLC 1.8", "harness/recorder.py (observer)", "harness/driver.py (observer)"])


replay = c01.replay
