"""C10: snarkjs files encode exactly the traced circuit and a valid witness (SnarkjsFile.tla on independently decoded files)."""
import json
import os
import subprocess

from harness import common, gen
from harness.decoders import iden3
from checks import coreprogs

RULE = ("programs (operators, assertions, comparisons, guards, fixed point, random compositions) run on the real pysnark.snarkjsbackend, "
        "prove() in a scratch directory, files decoded by an independent reader; witness classes small / negative / >= p / wider than 256 bit, "
        "zero coefficients, empty linear combinations, empty circuit; small-prime instantiation (p=251, TLC reduces everything) and the "
        "real bn128 prime (limb arithmetic with quotient certificates); distinct = programs")

P_BN = 21888242871839275222246405745257275088548364400416034343698204186575808495617


def programs(tier, seed, small):
    progs = []
    b = 3
    rg = gen.RandGen(seed * 13 + (1 if small else 2), b)
    n = (120 if small else 14) if tier == "quick" else (1200 if small else 60)
    for i in range(n):
        progs.append(rg.program("rand/%d" % i, rg.rnd.randint(1, 6), ["plain", "plain", "g1", "g0", "ign"][i % 5], fxp=(i % 3 == 0)))
    # the same random programs with an explicit prove() after the first half of their calls, and a public value created after it
    import copy
    for i in range(0, min(n, 40 if small else 6), 2):
        q = copy.deepcopy(progs[i])
        q["id"] = "mid/%d" % i
        k = max(1, len(q["steps"]) // 2)
        # registers are numbered by step: the inserted steps go to the very end of the numbering only if nothing refers past them,
        # so they are placed where they do not shift any reference: after the last step, followed by new calls on fresh registers
        def nregs(steps):
            # every step fills one register, the steps of nested bodies included
            n = 0
            for st in steps:
                n += 1
                for key in ("body",):
                    if isinstance(st.get(key), list):
                        n += nregs(st[key])
                for key in ("t", "f"):
                    if isinstance(st.get(key), dict) and isinstance(st[key].get("body"), list):
                        n += nregs(st[key]["body"])
            return n
        nreg = nregs(q["steps"])
        q["steps"] = q["steps"] + [{"op": "prove"}, {"op": "new", "kind": "pub", "ty": "int", "v": 2}, {"op": "new", "kind": "priv", "ty": "int", "v": 3},
                                   {"op": "bin", "name": "mul", "a": {"r": nreg + 1}, "b": {"r": nreg + 2}}, {"op": "meth", "name": "val", "a": {"r": nreg + 3}}]
        progs.append(q)
    # operands that differ by a multiple of the prime: non-zero as integers, zero in the field.  Zero tests / inequality assertions /
    # division need an inverse that does not exist: the call must refuse (whatever it does, the files must stay satisfied)
    pp = 251 if small else P_BN
    for nm, mk in (("eq", lambda a, b: {"op": "bin", "name": "eq", "a": a, "b": b}), ("ne", lambda a, b: {"op": "bin", "name": "ne", "a": a, "b": b}),
                   ("assert_ne", lambda a, b: {"op": "meth", "name": "assert_ne", "a": a, "args": [b]}),
                   ("sub_nonzero", lambda a, b: {"op": "meth", "name": "assert_nonzero", "a": a})):
        for k, (x, y) in enumerate(((pp + 5, 5), (5, 5 - pp), (2 * pp, 0))):
            for mode in ("plain", "ign"):
                B = gen.Builder("wrap/%s/%d/%s" % (nm, k, mode), mode, None, {"op": "wrap_" + nm})
                ra, rb = B.opnd(("S", x)), B.opnd(("S", y))
                if nm == "sub_nonzero":
                    n0 = B.nreg
                    B.add({"op": "bin", "name": "sub", "a": ra, "b": rb})
                    B.add(mk({"r": n0}, None))
                else:
                    B.add(mk(ra, rb))
                B.add({"op": "bin", "name": "mul", "a": ra, "b": rb})
                progs.append(B.build())
    # a trace well beyond a thousand constraints (writers that work in blocks must not lose the tail)
    if small:
        B = gen.Builder("big/1500", "plain", None, {"op": "big"})
        rx, ry = B.opnd(("S", 1)), B.opnd(("U", 3))
        n0 = B.nreg
        B.add({"op": "bin", "name": "mul", "a": rx, "b": ry})
        for k in range(1499):
            B.add({"op": "bin", "name": "mul", "a": {"r": n0 + k}, "b": rx})
        B.add({"op": "meth", "name": "val", "a": {"r": n0 + 1499}})
        progs.append(B.build())
    # straight families: one of each operator with mixed signs
    k = 0
    for op in gen.BIN_ARITH + gen.BIN_CMP:
        for (a, c) in ((3, 2), (-3, 2), (2, -1)):
            if not small and k % 4:
                k += 1
                continue
            k += 1
            B = gen.Builder("op/%s/%d,%d" % (op, a, c), "plain", None, {"op": op})
            ra, rb = B.opnd(("S", a)), B.opnd(("U", c))
            B.add({"op": "bin", "name": op, "a": ra, "b": rb})
            B.add({"op": "meth", "name": "val", "a": ra})
            progs.append(B.build())
    # several linear assertions over the SAME wires with different coefficients, repeated identical assertions
    for (a, c) in ((3, 2), (-1, 4)):
        B = gen.Builder("lin/%d,%d" % (a, c), "plain", None, {"op": "lin"})
        ra, rb = B.opnd(("S", a)), B.opnd(("S", c))
        n = B.nreg
        B.add({"op": "bin", "name": "add", "a": ra, "b": rb})
        B.add({"op": "bin", "name": "sub", "a": ra, "b": rb})
        B.add({"op": "meth", "name": "assert_eq", "a": {"r": n}, "args": [{"c": a + c}]})
        B.add({"op": "meth", "name": "assert_eq", "a": {"r": n + 1}, "args": [{"c": a - c}]})
        B.add({"op": "meth", "name": "assert_eq", "a": {"r": n}, "args": [{"c": a + c}]})
        B.add({"op": "bin", "name": "mul", "a": ra, "b": rb})
        B.add({"op": "bin", "name": "mul", "a": {"r": n + 1}, "b": {"r": n}})
        B.add({"op": "bin", "name": "mul", "a": {"r": n}, "b": {"r": n + 1}})
        progs.append(B.build())
    # witness / coefficient classes
    p = 251 if small else P_BN
    special = [("empty", []), ("neg", [{"what": "priv", "v": -4}, {"what": "pub", "v": -1}]),
               ("atp", [{"what": "priv", "v": p}, {"what": "pub", "v": p + 5}, {"what": "priv", "v": 3 * p - 1}]),
               ("wide", [{"what": "priv", "v": (1 << 256) + 12345}, {"what": "priv", "v": -(1 << 300) - 7}, {"what": "pub", "v": (1 << 257) - 1}]),
               ("zerocoef", [{"what": "zerocoef", "k": 0}, {"what": "zerocoef", "k": p}]), ("emptylc", [{"what": "emptylc"}]),
               ("mix", [{"what": "pub", "v": -p}, {"what": "zerocoef", "k": 2}, {"what": "emptylc"}, {"what": "priv", "v": 1 << 255}])]
    for nm, inj in special:
        progs.append({"id": "special/" + nm, "ign": False, "steps": [], "inject": inj, "meta": {}})
        B = gen.Builder("special+/" + nm, "plain", None, {})
        ra = B.opnd(("S", -2))
        B.add({"op": "bin", "name": "mul", "a": ra, "b": ra})
        pp = B.build()
        pp["inject"] = inj
        progs.append(pp)
    return progs


def run_backend(backend, prime, progs, d, bitlength=3, resolution=1):
    jf, of = os.path.join(d, "job.json"), os.path.join(d, "out.json")
    json.dump({"backend": backend, "prime": prime, "bitlength": bitlength, "resolution": resolution, "programs": progs, "workdir": os.path.join(d, "w")}, open(jf, "w"))
    env = common.child_env({"PYTHONPATH": os.path.join(common.ROOT, "shims") + os.pathsep + common.ROOT + os.pathsep + common.REPO})
    p = subprocess.run([common.PY, "-m", "harness.filerun", jf, of], cwd=d, env=env, stdout=subprocess.PIPE, stderr=subprocess.PIPE, timeout=1200)
    if p.returncode != 0 or not os.path.exists(of):
        raise common.MachineryError("filerun %s failed: %s" % (backend, p.stderr.decode("utf8", "replace")[-2000:]))
    return json.load(open(of))["runs"]


def toint(l):
    return sum(v << (8 * i) for i, v in enumerate(l))


def limbs(n):
    out = []
    while n:
        out.append(n & 255)
        n >>= 8
    return out


def satcerts(r1cs, wtns, p):
    vals = [toint(v) for v in wtns["values"]]
    out = []
    for con in r1cs["constraints"]:
        ev = []
        for lc in con:
            s = 0
            for t in lc:
                s += toint(t["c"]) * (vals[t["w"]] if t["w"] < len(vals) else 0)
            ev.append(s)
        d = ev[0] * ev[1] - ev[2]
        out.append({"neg": d < 0, "k": limbs(abs(d) // p)})
    return out


def cases_for(runs, progs, smallp):
    cases = []
    for r, pr in zip(runs, progs):
        if not r["proved"]:
            raise common.MachineryError("prove() failed for %s: %s" % (r["id"], r["err"]))
        r1 = iden3.read_r1cs(os.path.join(r["workdir"], "circuit.r1cs"))
        wt = iden3.read_wtns(os.path.join(r["workdir"], "witness.wtns"))
        if r1["header"] is None or wt["header"] is None:
            r1["header"] = r1["header"] or {"n8": 0, "prime": [], "nwires": -1, "npubout": -1, "npubin": 0, "nprvin": 0, "nlabels": 0, "ncons": -1, "len": 0, "expectlen": -1}
            wt["header"] = wt["header"] or {"n8": 0, "prime": [], "nwitness": -1, "len": 0, "expectlen": -1}
        cases.append({"id": r["id"], "smallp": smallp, "raised": r["raised"], "ign": bool(pr.get("ign")), "trace": r["trace"], "r1cs": r1, "wtns": wt,
                      "satcert": satcerts(r1, wt, smallp or P_BN)})
        if smallp:
            # raw bytes next to the traced system as plain integers, for the writer's mechanism spec (SnarkjsWriter.tla)
            def sint(b):
                v = toint(b["abs"])
                return -v if b["neg"] else v
            tr = r["trace"]
            w = {"id": r["id"], "p": smallp, "pubs": [sint(v) for v in tr["pub"]], "privs": [sint(v) for v in tr["priv"]],
                 "cons": [[[[t["w"], sint(t["c"])] for t in lc] for lc in con] for con in tr["cons"]],
                 "r1cs": list(open(os.path.join(r["workdir"], "circuit.r1cs"), "rb").read()), "wtns": list(open(os.path.join(r["workdir"], "witness.wtns"), "rb").read())}
            small = all(abs(v) < (1 << 30) for v in w["pubs"] + w["privs"]) and all(abs(t[1]) < (1 << 30) for con in w["cons"] for lc in con for t in lc)
            if small and len(w["r1cs"]) < 12000:
                WRITER.append(w)
    return cases


WRITER = []


def writer_conformance(run):
    """the files byte for byte against SnarkjsWriter.tla (mechanism): differences are MODEL-DRIFT, never violations"""
    from concurrent.futures import ThreadPoolExecutor
    cases = list(WRITER)
    if not cases:
        return
    chunks = [cases[i:i + 12] for i in range(0, len(cases), 12)]
    with ThreadPoolExecutor(8) as ex:
        results = list(ex.map(lambda ch: common._tlc_on_chunk("SnarkjsWriter", "SnarkjsWriter.cfg", {"cases": ch}, 2, False, False, "3g"), chunks))
    drift = 0
    for ch, res in zip(chunks, results):
        run.states += res.distinct
        if res.error:
            raise common.MachineryError("SnarkjsWriter: %s\n%s" % (res.error, res.stdout[-1500:]))
        if res.violated:
            drift += 1
            c = ch[int(res.state["tid"]) - 1]
            print("MODEL-DRIFT: %s -- the %s written for program %s is not the byte sequence SnarkjsWriter.tla predicts (%d bytes)" % (
                res.violated, "witness.wtns" if res.violated == "Inv_Wtns" else "circuit.r1cs", c["id"], len(c["wtns"] if res.violated == "Inv_Wtns" else c["r1cs"])))
    run.extra["snarkjs_writer_drift_chunks"] = drift
    run.notes.append("SnarkjsWriter.tla: %d file pairs predicted byte for byte (%d chunk(s) with drift)" % (len(cases), drift))


def main(tier):
    run = common.Run("C10", tier)
    del WRITER[:]
    from concurrent.futures import ThreadPoolExecutor
    for smallp in (251, 0):
        progs = programs(tier, common.seed(), bool(smallp))
        with common.scratch("snarkjs_") as d:
            runs = run_backend("snarkjs", smallp or None, progs, d)
            cases = cases_for(runs, progs, smallp)
        run.evaluations += len(cases)
        for c in cases:
            run.nontrivial.add((smallp, c["id"]))
        if not run.samples:
            c = cases[3]
            run.samples.append({"id": c["id"], "r1cs_header": c["r1cs"]["header"], "nconstraints": len(c["r1cs"]["constraints"]), "nwitness": len(c["wtns"]["values"])})
        chunk = 40 if smallp else 4
        chunks = [cases[i:i + chunk] for i in range(0, len(cases), chunk)]
        with ThreadPoolExecutor(8) as ex:
            results = list(ex.map(lambda ch: common._tlc_on_chunk("SnarkjsFile", "SnarkjsFile.cfg", {"cases": ch}, 2, False, False, "3g"), chunks))
        for ci, (ch, res) in enumerate(zip(chunks, results)):
            run.add_tlc(res, "%s #%d" % ("p=251" if smallp else "bn128", ci))
            run.traces += len(ch)
            if res.violated:
                c = ch[int(res.state["tid"]) - 1]
                pr = next(p for p in progs if p["id"] == c["id"])
                # the backend module lives as long as the process: what an earlier program of the batch left behind is part of the
                # history, so the replay runs the batch's first program and the reported one in one process, as the check did
                run.violation({"stage": "p=%s" % (smallp or "bn128"), "invariant": res.violated, "tlc_state": res.state, "smallp": smallp, "program": pr,
                               "preceding": [progs[0]] if progs[0]["id"] != pr["id"] else [],
                               "summary": "%s for files of program %s (%s)" % (res.violated, c["id"], "p=251" if smallp else "bn128 prime")})
        if run.violations:
            break
    if not run.violations:
        writer_conformance(run)
    return run.finish(RULE, assumptions=["nLabels and the input/output split of the header (nPubOut/nPubIn/nPrvIn) are not judged beyond nPubOut+nPubIn = number of public values",
                                         "real-prime congruences are decided from harness-supplied quotient certificates by exact integer identities"],
                      trusted=["TLC 1.8", "harness/decoders/iden3.py (parser)", "harness/filerun.py (observer of the backend's in-memory trace)"])


def replay(rec):
    run = common.Run("C10", "quick")
    smallp = rec.get("smallp", 251)
    batch = list(rec.get("preceding", [])) + [rec["program"]]
    with common.scratch("snarkjs_") as d:
        runs = run_backend("snarkjs", smallp or None, batch, d)
        cases = cases_for(runs, batch, smallp)
    res = common._tlc_on_chunk("SnarkjsFile", "SnarkjsFile.cfg", {"cases": cases}, 2, False, False, "3g")
    run.add_tlc(res, "replay")
    print("replay: %s" % ("violation reproduced (%s)" % res.violated if res.violated else "no violation on the current tree"))
    return 1 if res.violated else 0
