"""C20: hash gadgets equal a plain reference (Poseidon.tla / TraceHash.tla), reproduce published vectors and use the active backend's
parameters (HashFacts.tla); padding injectivity on the specification (PoseidonDesign.tla)."""
import hashlib
import itertools
import json
import os
import struct
import subprocess
from concurrent.futures import ThreadPoolExecutor

from harness import common, tlc

RULE = ("permutation and sponge over a small prime with the real parameter sets reduced mod P by TLC: all inputs in {0,1,2}^k for k up to 3 blocks "
        "(sampled beyond 1 block) plus random field elements and boolean / fixed-point typed inputs, per parameter set; subset-sum over all bit "
        "vectors of length <= 6; published permutation vectors at the bn128 and bls12-381 primes; one interpreter per way of selecting the backend")

VEC = {"x5_254": [0x299c867db6c1fdd79dcefa40e4510b9837e60ebb1ce0663dbaa525df65250465, 0x1148aaef609aa338b27dafd89bb98862d8bb2b429aceac47d86206154ffe053d,
                  0x24febb87fed7462e23f6665ff9a0111f4044c38ee1672c1ac6b0637d34f24907, 0x0eb08f6d809668a981c186beaf6110060707059576406b248e5d9cf6e78b3d3e,
                  0x07748bc6877c9b82c8b98666ee9d0626ec7f5be4205f79ee8528ef1c4a376fc7],
       "x5_255": [0x2a918b9c9f9bd7bb509331c81e297b5707f6fc7393dcee1b13901a0b22202e18, 0x65ebf8671739eeb11fb217f2d5c5bf4a0c3f210e3f3cd3b08b5db75675d797f7,
                  0x2cc176fc26bc70737a696a9dfd1b636ce360ee76926d182390cdb7459cf585ce, 0x4dc4e29d283afd2a491fe6aef122b9a968e74eff05341f3cc23fda1781dcb566,
                  0x03ff622da276830b9451b88b85e6184fd6ae15c8ab3ee25a5667be8592cce3b1]}


def limbs(n):
    out = []
    while n:
        out.append(n & 255)
        n >>= 8
    return out


def load_params():
    """the repository's parameter tables, as data (limb sequences) for TLC"""
    code = "import json,sys\nsys.path.insert(0,%r)\nfrom pysnark.poseidon_constants import poseidon_constants as c\nprint(json.dumps({k:{'t':v['t'],'RF':v['R_F'],'RP':v['R_P'],'a':v['a'],'rc':[[str(x) for x in r] for r in v['round_constants']],'m':[[str(x) for x in r] for r in v['matrix']]} for k,v in c.items()}))" % common.REPO
    p = subprocess.run([common.PY, "-c", code], stdout=subprocess.PIPE, stderr=subprocess.PIPE, env=common.child_env())
    if p.returncode != 0:
        raise common.MachineryError("cannot load poseidon_constants: " + p.stderr.decode()[-500:])
    raw = json.loads(p.stdout)
    return {k: {"t": v["t"], "RF": v["RF"], "RP": v["RP"], "a": v["a"], "rc": [[limbs(int(x)) for x in r] for r in v["rc"]],
                "m": [[limbs(int(x)) for x in r] for r in v["m"]]} for k, v in raw.items()}, raw


def sha_coef(i, P):
    """independent derivation of the i-th subset-sum coefficient (libsnark's SHA512_prng): SHA-512 of (i, it) as native
    64-bit integers, digest read little-endian, masked to bitlength(P) bits, first value below P"""
    it = 0
    while True:
        d = hashlib.sha512(struct.pack("=QQ", i, it)).digest()
        v = int.from_bytes(d, "little") % (1 << P.bit_length())
        if v < P:
            return v
        it += 1


def hash_programs(tier, paramset, P, seed):
    import random
    import zlib
    rnd = random.Random(seed + zlib.crc32(paramset.encode()) % 1000)       # (str hashes are randomised per process)
    progs = []
    t = 5

    def add(pid, which, vals, kind="S", cls=None, expectok=True):
        steps, refs = [], []
        for k, v in enumerate(vals):
            if kind == "SB":
                steps.append({"op": "new", "kind": "priv", "ty": "bool", "v": v & 1})
            elif kind == "F":
                steps.append({"op": "new", "kind": "priv", "ty": "fxp", "v": {"f": [v, 2]}})
            elif kind == "c":
                steps.append({"op": "peek", "a": {"c": v}})
            else:
                steps.append({"op": "new", "kind": "priv", "ty": "int", "v": v})
            refs.append({"r": k})
        steps.append({"op": "hash", "which": which, "a": {"l": refs}, "tag": "main"})
        progs.append({"id": pid, "ign": False, "steps": steps, "meta": {"which": which, "vals": list(vals), "kind": kind, "paramset": paramset,
                                                                       "class": cls or "%s/%s/%d/%s" % (paramset, which, len(vals), kind), "expectok": expectok}})
    # permutation: all {0,1,2}^5 is 243 inputs; quick samples them
    allp = list(itertools.product((0, 1, 2), repeat=t))
    for k, v in enumerate(allp[::(9 if tier == "quick" else 1)]):
        add("%s/permute/%d" % (paramset, k), "permute", v)
    for k in range(10 if tier == "quick" else 100):
        add("%s/permute/rand%d" % (paramset, k), "permute", [rnd.randrange(P) for _ in range(t)])
    # sponge: lengths 0..3 blocks (rate 4): 0..12 elements
    for n in range(0, 13):
        combos = list(itertools.product((0, 1, 2), repeat=n))
        step = max(1, len(combos) // (6 if tier == "quick" else 60))
        for k, v in enumerate(combos[::step][: (6 if tier == "quick" else 60)]):
            add("%s/sponge/%d/%d" % (paramset, n, k), "poseidon", v)
        add("%s/sponge/%d/rand" % (paramset, n), "poseidon", [rnd.randrange(P) for _ in range(n)])
    # the SAME list object hashed twice (and a third time after another message): each call must equal the reference
    for n in (0, 1, 3, 4, 5):
        vals = [rnd.randrange(3) for _ in range(n)]
        steps = [{"op": "new", "kind": "priv", "ty": "int", "v": v} for v in vals]
        steps.append({"op": "peek", "a": {"l": [{"r": k} for k in range(n)]}})
        for rep in range(3):
            steps.append({"op": "hash", "which": "poseidon", "a": {"r": n}, "tag": "main%d" % rep})
        for rep in range(3):
            progs.append({"id": "%s/sponge/samelist/%d/%d" % (paramset, n, rep), "ign": False, "steps": steps,
                          "meta": {"which": "poseidon", "vals": vals, "kind": "S", "paramset": paramset, "class": "%s/poseidon/%d/S" % (paramset, n), "expectok": True, "maintag": "main%d" % rep}})
    for n in (1, 4, 5):
        add("%s/sponge/bool/%d" % (paramset, n), "poseidon", [rnd.randint(0, 1) for _ in range(n)], kind="SB")
        add("%s/sponge/fxp/%d" % (paramset, n), "poseidon", [rnd.randint(-3, 3) for _ in range(n)], kind="F")
    return progs


def ggh_programs(tier):
    progs = []
    for n in range(0, 7):
        for k, bits in enumerate(itertools.product((0, 1), repeat=n)):
            if tier == "quick" and n >= 5 and k % 3:
                continue
            for kind in ("S", "SB", "c", "mixSc", "mixcS"):
                if kind.startswith("mix") and n < 2:
                    continue
                steps, refs = [], []
                for j, b in enumerate(bits):
                    # mixed lists: traced bits and plain-integer bits in one message (secret first / constant first, alternating)
                    if kind == "S" or (kind == "mixSc" and j % 2 == 0) or (kind == "mixcS" and j % 2 == 1):
                        steps.append({"op": "new", "kind": "priv", "ty": "int", "v": b})
                    elif kind == "SB":
                        steps.append({"op": "new", "kind": "priv", "ty": "bool", "v": b})
                    else:
                        steps.append({"op": "peek", "a": {"c": b}})
                    refs.append({"r": j})
                steps.append({"op": "hash", "which": "ggh", "a": {"l": refs}, "tag": "main"})
                progs.append({"id": "ggh/%d/%d/%s" % (n, k, kind), "ign": False, "steps": steps,
                              "meta": {"which": "ggh", "vals": list(bits), "kind": kind, "paramset": "", "class": "ggh/%d/%s" % (n, kind), "expectok": kind not in ("SB", "mixcS")}})
    return progs


def cases_from(traces, P, pkey):
    cases = []
    for t in traces:
        m = t["meta"]
        mt = m.get("maintag", "main")
        evs = [e for e in t["events"] if e.get("tag") == mt]
        e = evs[-1]
        vals = m["vals"]
        if m["kind"] == "F":
            vals = [v for v in vals]          # resolution 1: representation of v/2 is v
        out = []
        for x in e["res"]:
            out.append(x["v"] if x["k"] in ("pyint", "pybool") else x["m"])
        ncons = sum(len(ev["ncons"]) for ev in t["events"] if ev.get("tag") == mt)
        cases.append({"id": t["id"], "P": P, "kind": {"permute": "permute", "poseidon": "poseidon", "ggh": "ggh"}[m["which"]], "paramset": m["paramset"] or "nobackend",
                      "input": [int(v) for v in vals], "out": e["out"], "exc": e["exc"], "output": out, "ncons": ncons, "class": m["class"], "pkey": pkey,
                      "expectok": bool(m["expectok"]), "knownplainpath": False, "inkind": m["kind"]})
    return cases


SELECT_PROBE = r'''
import sys, json, importlib
pre = json.loads(sys.argv[1])
mods = {"snarkjs":"pysnark.snarkjsbackend","zkinterface":"pysnark.zkinterface.backend","zkifbellman":"pysnark.zkinterface.backendbellman","zkifbulletproofs":"pysnark.zkinterface.backendbulletproofs","nobackend":"pysnark.nobackend","qaptools":"pysnark.qaptools.backend"}
for n in pre:
    importlib.import_module(mods[n])
import io, contextlib
buf = io.StringIO()
with contextlib.redirect_stdout(buf):
    import pysnark.runtime as rt
rt.autoprove = False
obs = {"backend_name": rt.backend_name, "modulus": str(rt.backend.get_modulus()), "raised": False, "exc": "", "RF": 0, "RP": 0, "a": 0, "rc0": "0", "out": []}
try:
    import pysnark.poseidon_hash as ph
    obs.update({"RF": ph.R_F, "RP": ph.R_P, "a": ph.a, "rc0": str(ph.round_constants[0][0])})
    if json.loads(sys.argv[2]):
        out = ph.permute([rt.PrivVal(i) for i in range(5)])
        obs["out"] = [str(x.value) for x in out]
except NotImplementedError as e:
    obs["raised"], obs["exc"] = True, "NotImplementedError"
# subset-sum hash in the field in effect: its first coefficients and the plain hash of the all-ones vector
obs["ggh"], obs["gghsum"] = [], ""
try:
    import pysnark.ggh_hash as gh
    obs["ggh"] = [str(gh.SHA512_prng(i)) for i in range(16)]
    obs["gghsum"] = str(gh.ggh_hash_plain([1] * 16))
except Exception as e:
    obs["ggh"], obs["gghsum"] = [], "error:" + type(e).__name__
print("OBS " + json.dumps(obs))
'''


def probe(args):
    pre, envv, vec, d, k = args
    wd = os.path.join(d, "p%d" % k)
    os.makedirs(wd)
    sp = os.path.join(wd, "probe.py")
    open(sp, "w").write(SELECT_PROBE)
    env = common.child_env({"PYTHONPATH": os.path.join(common.ROOT, "shims") + os.pathsep + common.REPO, "QAPTOOLS_BIN": os.path.join(common.ROOT, "shims", "qaptools-bin")})
    if envv != "unset":
        env["PYSNARK_BACKEND"] = envv
    p = subprocess.run([common.PY, sp, json.dumps(pre), json.dumps(bool(vec))], cwd=wd, env=env, stdout=subprocess.PIPE, stderr=subprocess.PIPE, timeout=300, stdin=subprocess.DEVNULL)
    for ln in p.stdout.decode("utf8", "replace").splitlines():
        if ln.startswith("OBS "):
            return dict(json.loads(ln[4:]), pre=pre, env=envv)
    raise common.MachineryError("hash probe failed (%s, %s): %s" % (pre, envv, p.stderr.decode("utf8", "replace")[-600:]))


def main(tier):
    run = common.Run("C20", tier)
    # design level: padding of the specification is injective
    res = tlc.run("PoseidonDesign", cfg="PoseidonDesign.cfg", workers=8)
    run.add_tlc(res, "PoseidonDesign.tla: padding injective for all message pairs up to 3 blocks over {0,1,2}")
    if res.violated:
        run.violation({"stage": "design", "invariant": res.violated, "tlc_state": res.state, "summary": "Poseidon.tla padding: " + res.violated})
    params, raw = load_params()
    P = 32749
    allcases = []
    allprogs = []
    for pset, modname in (("zkinterface", "pysnark.zkinterface.backend"), ("zkifbellman", "pysnark.zkinterface.backendbellman"), ("nobackend", "pysnark.nobackend")):
        if tier == "quick" and pset == "zkifbellman":
            continue
        cfg = {"P": P, "bitlength": 6, "resolution": 1, "modname": modname, "env_backend": pset}
        progs = hash_programs(tier, pset, P, common.seed())
        if pset == "nobackend":
            progs += ggh_programs(tier)
        traces = common.run_programs(cfg, progs)
        allprogs += progs
        cs = cases_from(traces, P, str(P))
        allcases += cs
        for c in cs:
            run.nontrivial.add(c["class"])
    run.evaluations += len(allcases)
    run.traces += len(allcases)
    run.samples = [{k: allcases[0][k] for k in ("id", "kind", "paramset", "input", "output", "ncons")}]
    # second field for the subset-sum hash: P2 = 16411 is just above 2^14, so about half of the SHA-512 candidates are
    # rejected and the retry path of the coefficient derivation is exercised at most indices
    P2 = 16411
    gp = [p for p in ggh_programs(tier) if p["id"].split("/")[1] in ("5", "6") or tier != "quick"]
    for p_ in gp:
        p_["id"] = "p2/" + p_["id"]
    gt = common.run_programs({"P": P2, "bitlength": 6, "resolution": 1, "modname": "pysnark.nobackend", "env_backend": "nobackend"}, gp)
    c2 = cases_from(gt, P2, str(P2))
    allcases += c2
    allprogs += gp
    run.evaluations += len(c2)
    ggh = {str(P): [sha_coef(i, P) for i in range(8)], str(P2): [sha_coef(i, P2) for i in range(8)]}
    data = {"cases": allcases, "params": params, "ggh": ggh}
    r = common._tlc_on_chunk("TraceHash", "TraceHash.cfg", data, 16, False, False, "6g")
    run.add_tlc(r, "gadget vs reference over P=%d" % P)
    if r.violated:
        c = allcases[int(r.state["tid"]) - 1]
        run.violation({"stage": "hash", "invariant": r.violated, "tlc_state": r.state, "case": c, "program": next(p for p in allprogs if p["id"] == c["id"]),
                       "summary": "%s for %s (%s, input kind %s): input %s -> %s %s, %d constraints" % (r.violated, c["id"], c["paramset"], c["inkind"], c["input"], c["out"], c["output"], c["ncons"])})
    if not run.violations:
        # published vectors at the real primes + parameter set per selection path
        sel = [([], "unset", 0), ([], "zkinterface", 1), ([], "zkifbellman", 1), ([], "zkifbulletproofs", 0), ([], "snarkjs", 0), ([], "nobackend", 0), ([], "qaptools", 0),
               (["zkinterface"], "unset", 1), (["zkifbellman"], "unset", 0), (["zkifbulletproofs"], "unset", 0), (["snarkjs"], "unset", 0), (["nobackend"], "unset", 0),
               (["zkinterface"], "zkifbellman", 0), (["zkifbellman"], "zkifbellman", 0), (["zkifbulletproofs"], "zkinterface", 0), (["snarkjs"], "zkinterface", 0),
               (["zkifbellman"], "zkinterface", 0), (["nobackend"], "zkinterface", 0)]
        with common.scratch("hsel_") as d:
            with ThreadPoolExecutor(8) as ex:
                obs = list(ex.map(probe, [(a, b, c, d, k) for k, (a, b, c) in enumerate(sel)]))
        setids = {raw[k]["rc"][0][0]: {"zkinterface": "x5_254", "zkifbellman": "x5_255", "zkifbulletproofs": "c25519", "nobackend": "toy"}[k] for k in raw}
        # zkinterface and zkifbulletproofs tables may coincide in their first constant: disambiguate by full identity where possible
        facts = []
        for o in obs:
            setid = "none" if o["raised"] else setids.get(o["rc0"], "unknown")
            facts.append({"kind": "params", "backend_name": o["backend_name"] or "", "modulus": limbs(int(o["modulus"])), "raised": o["raised"], "setid": setid,
                          "RF": o["RF"], "RP": o["RP"], "a": o["a"], "pre": o["pre"], "env": o["env"], "out": "", "output": [], "vecname": "", "expect": []})
            if o.get("ggh"):
                pm = int(o["modulus"])
                facts.append({"kind": "ggh", "backend_name": o["backend_name"] or "", "modulus": limbs(pm), "raised": False, "setid": "", "RF": 0, "RP": 0, "a": 0,
                              "pre": o["pre"], "env": o["env"], "out": "ok", "output": [limbs(int(x)) for x in o["ggh"]] + [limbs(int(o["gghsum"]))],
                              "vecname": "", "expect": [limbs(sha_coef(i, pm)) for i in range(16)] + [limbs(sum(sha_coef(i, pm) for i in range(16)) % pm)]})
            if o["out"]:
                vn = {"zkinterface": "x5_254", "zkifbellman": "x5_255"}.get(o["backend_name"])
                if vn:
                    facts.append({"kind": "vector", "backend_name": o["backend_name"], "modulus": limbs(int(o["modulus"])), "raised": False, "setid": setid, "RF": 0, "RP": 0, "a": 0,
                                  "pre": o["pre"], "env": o["env"], "out": "ok", "output": [limbs(int(x)) for x in o["out"]], "vecname": vn, "expect": []})
        run.evaluations += len(facts)
        for f in facts:
            run.nontrivial.add(("sel", json.dumps(f["pre"]), f["env"], f["kind"]))
        r2 = common._tlc_on_chunk("HashFacts", "HashFacts.cfg", {"facts": facts, "vectors": {k: [limbs(x) for x in v] for k, v in VEC.items()}, "active": common.active_ids("C20")}, 4, False, False, "3g")
        run.add_tlc(r2, "published vectors and parameter selection")
        if r2.violated:
            f = facts[int(r2.state["tid"]) - 1]
            run.violation({"stage": "selection", "invariant": r2.violated, "tlc_state": r2.state, "fact": f,
                           "summary": "%s: pre-imported %s, PYSNARK_BACKEND=%s -> backend %s, parameter set %s (raised=%s)" % (r2.violated, f["pre"], f["env"], f["backend_name"], f["setid"], f["raised"])})
    return run.finish(RULE, assumptions=["the reference uses the repository's parameter tables as data; the algorithm is Poseidon.tla", "subset-sum coefficients are derived independently with hashlib and handed to TLC as constants",
                                         "small-prime instantiation P=32749 for the all-inputs comparison; real primes only for the published vectors"],
                      trusted=["TLC 1.8", "harness observers", "hashlib (SHA-512)"])


def replay(rec):
    return main("quick")
