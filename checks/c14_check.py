"""C14: fixed-point operations equal exact scaled-integer arithmetic (FxpRef.tla / TraceFxp.tla)."""
from harness import common, gen, views

RULE = ("every operator x operand kind pair (fixed-point, secret int, secret bool, int, float) x both orders x all representable values of "
        "a window x resolutions 1..3, plus unary ops, val() and conversions; TLC evaluates FxpRef on the logged representations; "
        "distinct = (resolution, op, kinds) classes")

OPS = ["add", "sub", "mul", "truediv", "floordiv", "mod", "divmod"] + gen.BIN_CMP


def programs(tier, b, r):
    progs = []
    R = 1 << r
    lim = (1 << (b - 1))
    # representable fixed-point values: n / 2^r with |rep| small
    reps = list(range(-lim // 2 - 1, lim // 2 + 2)) if tier == "quick" else list(range(-lim, lim + 1))
    fvals = [[n, R] for n in reps]
    ints = [-2, -1, 0, 1, 2, 3]

    def add(pid, meta, da, db, op):
        B = gen.Builder(pid, "plain", None, meta)
        ra, rb = B.opnd(da), B.opnd(db)
        B.add({"op": "bin", "name": op, "a": ra, "b": rb, "tag": "main"})
        progs.append(B.build())
    # the resolution is a module global the user may change between operations: the same float constants and the same kinds of
    # operands are used before and after a change (r -> r+1 -> r); operands are created at the resolution in force
    for op in ("add", "mul", "lt", "sub"):
        for n in (reps[1], reps[-2]):
            for kb in ("f", "F"):
                steps = []
                reg = 0
                for rr in (r, r + 1, r):
                    steps.append({"op": "set", "what": "resolution", "v": rr}); reg += 1
                    steps.append({"op": "new", "kind": "priv", "ty": "fxp", "v": {"f": [n, R]}}); a = reg; reg += 1
                    if kb == "F":
                        steps.append({"op": "new", "kind": "priv", "ty": "fxp", "v": {"f": [3, R]}}); bref = {"r": reg}; reg += 1
                    else:
                        bref = {"f": [3, R]}
                    steps.append({"op": "bin", "name": op, "a": {"r": a}, "b": bref, "tag": "main"}); reg += 1
                progs.append({"id": "r%d/reschange/%s/F%s/%d" % (r, op, kb, n), "ign": False, "steps": steps, "cfg": {},
                              "meta": {"op": "reschange_" + op, "kinds": "F" + kb, "mode": "plain", "npre": 0, "ng": 0, "nbody": len(steps), "style": "lc"}})
    for op in OPS:
        for x in fvals:
            for y in (fvals if tier != "quick" else fvals[::2]):
                for (ka, kb) in (("F", "F"), ("F", "f"), ("f", "F"), ("UF", "F")):
                    add("r%d/%s/%s%s/%d,%d" % (r, op, ka, kb, x[0], y[0]), {"op": op, "kinds": ka + kb}, (ka, x), (kb, y), op)
            for n in ints:
                for (ka, kb) in (("F", "S"), ("S", "F"), ("F", "c"), ("c", "F")):
                    da = (ka, x) if ka == "F" else (ka, n)
                    db = (kb, x) if kb == "F" else (kb, n)
                    add("r%d/%s/%s%s/%d,%d" % (r, op, ka, kb, x[0], n), {"op": op, "kinds": ka + kb}, da, db, op)
            for bv in (0, 1):
                for (ka, kb) in (("F", "SB"), ("SB", "F")):
                    da = (ka, x) if ka == "F" else (ka, bv)
                    db = (kb, x) if kb == "F" else (kb, bv)
                    add("r%d/%s/%s%s/%d,%d" % (r, op, ka, kb, x[0], bv), {"op": op, "kinds": ka + kb}, da, db, op)
    for x in fvals:
        for k in (0, 1, 2, 3):
            add("r%d/pow/Fc/%d,%d" % (r, x[0], k), {"op": "pow", "kinds": "Fc"}, ("F", x), ("c", k), "pow")
        for k in (0, 1, 2):
            add("r%d/lshift/Fc/%d,%d" % (r, x[0], k), {"op": "lshift", "kinds": "Fc"}, ("F", x), ("c", k), "lshift")
            add("r%d/rshift/Fc/%d,%d" % (r, x[0], k), {"op": "rshift", "kinds": "Fc"}, ("F", x), ("c", k), "rshift")
        for op in ("neg", "pos", "abs"):
            B = gen.Builder("r%d/%s/F/%d" % (r, op, x[0]), "plain", None, {"op": op, "kinds": "F"})
            B.add({"op": "un", "name": op, "a": B.opnd(("F", x)), "tag": "main"})
            progs.append(B.build())
        B = gen.Builder("r%d/val/F/%d" % (r, x[0]), "plain", None, {"op": "val", "kinds": "F"})
        B.add({"op": "meth", "name": "val", "a": B.opnd(("F", x)), "tag": "main"})
        progs.append(B.build())
    for nm in gen.ASSERT2:
        for x in fvals[::2]:
            for y in fvals[::3]:
                for kb in ("F", "f"):
                    B = gen.Builder("r%d/%s/F%s/%d,%d" % (r, nm, kb, x[0], y[0]), "plain", None, {"op": nm, "kinds": "F" + kb})
                    ra, rb = B.opnd(("F", x)), B.opnd((kb, y))
                    B.add({"op": "meth", "name": nm, "a": ra, "args": [rb], "tag": "main"})
                    progs.append(B.build())
            for n in (-1, 0, 1, 2):
                for kb in ("S", "c", "SB"):
                    B = gen.Builder("r%d/%s/F%s/%d,%d" % (r, nm, kb, x[0], n), "plain", None, {"op": nm, "kinds": "F" + kb})
                    ra, rb = B.opnd(("F", x)), B.opnd((kb, n & 1 if kb == "SB" else n))
                    B.add({"op": "meth", "name": nm, "a": ra, "args": [rb], "tag": "main"})
                    progs.append(B.build())
    # ... and with the fixed-point value on the RIGHT of an integer's (or boolean's) assertion method: accepted only if the relation
    # holds for the represented numbers (refusing the operand combination altogether is allowed)
    for nm in gen.ASSERT2 + ["assert_range"]:
        for n in (-1, 0, 1, 2, 3):
            for y in fvals[::2]:
                for ka in ("S", "SB"):
                    B = gen.Builder("r%d/%s/%sF/%d,%d" % (r, nm, ka, n, y[0]), "plain", None, {"op": nm, "kinds": ka + "F"})
                    ra, rb = B.opnd((ka, n & 1 if ka == "SB" else n)), B.opnd(("F", y))
                    args = [rb] if nm != "assert_range" else [rb, B.opnd(("F", [y[0] + 2 * R, R]))]
                    B.add({"op": "meth", "name": nm, "a": ra, "args": args, "tag": "main"})
                    progs.append(B.build())
    for fn, kinds in (("LinCombFxp", ["S", "U"]), ("ensurefxp", ["S", "SB", "c", "f", "F"]), ("PrivValFxp", ["c", "f"]), ("PubValFxp", ["c", "f"])):
        for k in kinds:
            for n in (-3, -1, 0, 1, 2):
                v = [n, R] if k in ("f", "F") else (n & 1 if k == "SB" else n)
                B = gen.Builder("r%d/%s/%s/%d" % (r, fn, k, n), "plain", None, {"op": fn, "kinds": k})
                B.add({"op": "call", "fn": fn, "args": [B.opnd((k, v))], "tag": "main"})
                progs.append(B.build())
    return progs


def conv_view(tr):
    """TraceFxp view: like views.ref, but constructions of fixed-point values are kept as 'conv' events."""
    v = views.ref(tr)
    evs = []
    for e in tr["events"]:
        if e["op"] == "new" and e.get("ty") == "fxp" and e["out"] == "ok":
            pass
    return v


def main(tier):
    run = common.Run("C14", tier)
    cfgs = [{"P": 16411, "bitlength": 6, "resolution": 1}, {"P": 16411, "bitlength": 6, "resolution": 2}] if tier == "quick" else \
        [{"P": 16411, "bitlength": 6, "resolution": 1}, {"P": 16411, "bitlength": 6, "resolution": 2}, {"P": 32749, "bitlength": 6, "resolution": 3},
         {"P": 4099, "bitlength": 5, "resolution": 2}]
    for cfg in cfgs:
        progs = programs(tier, cfg["bitlength"], cfg["resolution"])
        traces = common.run_programs(cfg, progs)
        for t in traces:
            m = t["meta"]
            run.nontrivial.add((cfg["resolution"], m["op"], m["kinds"]))
            run.evaluations += 1
        if not run.samples:
            run.samples = [progs[0], progs[len(progs) // 2]]
        common.validate_traces(run, "TraceFxp", traces, cfg="TraceFxp.cfg", label="r=%d,b=%d" % (cfg["resolution"], cfg["bitlength"]),
                               programs=progs, view=views.ref, chunk=4000, parallel=8)
        if run.violations:
            break
    return run.finish(RULE, assumptions=["floats are exactly representable at the resolution (others are skipped)", "representations compared as exact integers"],
                      trusted=["TLC 1.8", "harness observers"])


def replay(rec):
    run = common.Run("C14", "quick")
    traces = common.run_programs(rec["cfg"], [rec["program"]])
    common.validate_traces(run, "TraceFxp", traces, cfg="TraceFxp.cfg", label="replay", programs=[rec["program"]], view=views.ref)
    print("replay: %s" % ("violation reproduced" if run.violations else "no violation on the current tree"))
    return 1 if run.violations else 0
