"""C09: oblivious if/elif/else, while and for compute what native control flow computes (NativeCF.tla / TraceCF.tla),
with the constraints satisfied (TraceCore) and independent of the branches taken (TraceShape)."""
import itertools
import json

from harness import common, views

RULE = ("structured programs (if / if-else / if-elif-else up to 3 arms, nesting depth 2, for over a secret bound with public maximum with and "
        "without break and bound check, while with public cap and break, compositions) over 3 integer variables and a 0/1 flag, each run on "
        "all input vectors of a small window; TLC interprets the same program natively (NativeCF) and compares final variables; "
        "distinct = program texts")


def V(n): return {"e": "var", "n": n}
def K(v): return {"e": "const", "v": v}
def Add(l, r): return {"e": "add", "l": l, "r": r}
def Sub(l, r): return {"e": "sub", "l": l, "r": r}
def Mul(l, r): return {"e": "mul", "l": l, "r": r}
def AGet(cell): return {"e": "aget", "n": cell[0], "i": int(cell[1]), "cell": cell} if len(cell) == 2 else {"e": "aget", "n": "m", "i": int(cell[1]), "j": int(cell[2]), "cell": cell}
def ASet(cell, e): return {"s": "aset", "n": "a", "i": int(cell[1]), "cell": cell, "secret": False, "cells": [], "e": e} if len(cell) == 2 else \
    {"s": "aset", "n": "m", "i": int(cell[1]), "j": int(cell[2]), "cell": cell, "secret": False, "cells": [], "e": e}
def ASetV(var, e): return {"s": "aset", "n": "a", "i": V(var), "cell": "", "secret": True, "cells": ["a0", "a1", "a2"], "e": e}
def Div(l, r): return {"e": "div", "l": l, "r": r}
def C(op, l, r): return {"c": op, "l": l, "r": r}
def CV(n): return {"c": "var", "n": n}
def Asg(n, e): return {"s": "assign", "n": n, "e": e}
def If(arms, els=None): return {"s": "if", "arms": [{"c": c, "body": b} for c, b in arms], "haselse": els is not None, "els": els or []}
def For(i, stop, mx, body, check=False): return {"s": "for", "i": i, "stop": stop, "max": mx, "check": check, "body": body}
def While(c, mx, body): return {"s": "while", "c": c, "max": mx, "body": body}
def Brk(c): return {"s": "breakif", "c": c}


def templates(tier):
    T = []
    conds = [C("lt", V("x"), V("y")), C("eq", V("x"), K(1)), C("ge", V("x"), K(0)), CV("f"), C("ne", V("y"), V("x"))]
    for c in conds:
        T.append(("if", [If([(c, [Asg("y", K(7))])])]))
        T.append(("ifelse", [If([(c, [Asg("y", Add(V("x"), K(1)))])], [Asg("y", Sub(V("y"), K(2))), Asg("z", K(5))])]))
    for c1, c2 in [(conds[0], conds[1]), (conds[3], conds[0]), (conds[1], conds[2])]:
        T.append(("elif", [If([(c1, [Asg("y", K(1))]), (c2, [Asg("y", K(2))])], [Asg("y", K(3))])]))
        T.append(("elif_noelse", [If([(c1, [Asg("y", K(1))]), (c2, [Asg("z", K(2))])])]))
        T.append(("elif3", [If([(c1, [Asg("y", K(1))]), (c2, [Asg("y", K(2))]), (C("gt", V("y"), K(0)), [Asg("y", K(4)), Asg("x", K(0))])], [Asg("z", V("x"))])]))
    # longer chains whose conditions do not depend on what the arms assign (so that every truth assignment of the conditions is met):
    # the arm taken is the FIRST true one, also when an earlier arm was taken and a later condition is false
    ch = [CV("f"), C("eq", V("x"), K(1)), C("lt", V("x"), V("z")), C("ge", V("z"), K(1))]
    T.append(("elifchain3", [If([(ch[0], [Asg("y", K(1))]), (ch[1], [Asg("y", K(2))]), (ch[2], [Asg("y", K(3))])], [Asg("y", K(4))])]))
    T.append(("elifchain3_noelse", [If([(ch[0], [Asg("y", K(1))]), (ch[1], [Asg("y", K(2))]), (ch[2], [Asg("y", K(3))])])]))
    T.append(("elifchain4", [If([(ch[1], [Asg("y", K(1))]), (ch[0], [Asg("y", K(2))]), (ch[2], [Asg("y", K(3))]), (ch[3], [Asg("y", K(5))])], [Asg("y", K(4))])]))
    T.append(("elifchain4_noelse", [If([(ch[2], [Asg("y", K(1))]), (ch[1], [Asg("y", K(2))]), (ch[0], [Asg("y", K(3))]), (ch[3], [Asg("y", Add(V("y"), K(5)))])])]))
    # nesting
    T.append(("nested", [If([(conds[0], [If([(conds[1], [Asg("z", K(1))])], [Asg("z", K(2))]), Asg("y", Add(V("z"), K(1)))])], [If([(conds[3], [Asg("y", K(9))])])])]))
    T.append(("nested2", [If([(conds[3], [Asg("x", Add(V("x"), K(1))), If([(C("gt", V("x"), V("y")), [Asg("y", V("x"))])])])]), Asg("z", Add(V("y"), V("x")))]))
    # containers held in tracked variables and updated IN PLACE inside branches and loops (an Array, a list of lists)
    T.append(("arrif", [If([(CV("f"), [ASet("a1", K(9)), ASet("a0", Add(AGet("a0"), V("x")))])], [ASet("a2", V("y"))])]))
    T.append(("arrifsecret", [If([(C("lt", V("x"), V("y")), [ASetV("z", K(7))])])]))
    T.append(("arrfor", [For("i", V("z"), 3, [ASetV("i", Add(V("x"), V("i")))])]))
    T.append(("arrnested", [If([(CV("f"), [If([(C("eq", V("x"), K(1)), [ASet("a0", K(5))])], [ASet("a1", K(6))])])])]))
    T.append(("matif", [If([(CV("f"), [ASet("m01", K(9))])], [ASet("m10", Add(AGet("m11"), K(1)))])]))
    T.append(("matwhile", [While(C("lt", V("x"), K(2)), 2, [ASet("m00", Add(AGet("m00"), K(1))), Asg("x", Add(V("x"), K(1)))])]))
    # variables of DIFFERENT numeric types merged by a branch: a boolean / integer variable receives a fixed-point value in one arm
    # (and the other way round); values are compared as numbers (everything scaled by 2^resolution)
    # (x: integer, y: boolean, z: fixed point)
    T.append(("mixedb", [If([(CV("f"), [Asg("y", V("z"))])])]))
    T.append(("mixedn", [If([(CV("f"), [Asg("x", V("z"))])], [Asg("x", V("y"))])]))
    T.append(("mixedq", [If([(CV("f"), [Asg("z", V("y"))])])]))
    T.append(("mixedw", [While(CV("f"), 1, [Asg("y", V("z")), Asg("f", K(0))])]))
    # value-dependent operations in branches that may be dead: x is halved only when it is even (y = x mod 2 is an input);
    # in the branch that is NOT taken the division is inexact and the comparison operands may be out of range
    even = C("eq", V("y"), K(0))
    T.append(("divif", [If([(even, [Asg("z", Div(V("x"), K(2)))])], [Asg("z", Div(Sub(V("x"), K(1)), K(2)))])]))
    T.append(("divnested", [If([(CV("f"), [If([(even, [Asg("z", Div(V("x"), K(2))), If([(C("lt", V("z"), K(1)), [Asg("z", K(9))])])])])])], [Asg("z", K(-1))])]))
    T.append(("divfor", [If([(CV("f"), [For("i", V("y"), 2, [If([(C("eq", Mul(V("x"), K(1)), Mul(Div(V("x"), K(3)), K(3))), [Asg("z", Add(V("z"), K(1)))])])])])])]))
    # sequences of writes / reads inside a branch, multiplication
    T.append(("seq", [If([(conds[0], [Asg("x", Mul(V("x"), V("y"))), Asg("y", Add(V("x"), K(1))), Asg("x", K(0))])], [Asg("z", Mul(V("z"), K(2)))]), Asg("y", Add(V("y"), V("z")))]))
    # for loops over a secret bound
    for mx in (2, 3):
        T.append(("for%d" % mx, [Asg("y", K(0)), For("i", V("x"), mx, [Asg("y", Add(V("y"), Add(V("i"), K(1))))])]))
        T.append(("forchk%d" % mx, [Asg("y", K(0)), For("i", V("x"), mx, [Asg("y", Add(V("y"), K(2)))], check=True)]))
        T.append(("forbrk%d" % mx, [Asg("y", K(0)), For("i", V("x"), mx, [Brk(C("eq", V("i"), V("z"))), Asg("y", Add(V("y"), K(1)))])]))
        T.append(("forbrk2_%d" % mx, [For("i", V("x"), mx, [Asg("y", Add(V("y"), K(1))), Brk(C("ge", V("y"), K(2))), Asg("z", V("i"))])]))
        T.append(("forif%d" % mx, [For("i", V("x"), mx, [If([(C("lt", V("y"), K(2)), [Asg("y", Add(V("y"), K(1)))])], [Asg("z", Add(V("z"), K(1)))])])]))
    T.append(("forplain", [For("i", K(2), 2, [Asg("y", Add(V("y"), V("i")))])]))
    T.append(("iffor", [If([(conds[3], [For("i", V("x"), 2, [Asg("y", Add(V("y"), K(1)))])])], [Asg("y", K(-1))])]))
    T.append(("fornest", [For("i", V("x"), 2, [For("i", V("z"), 2, [Asg("y", Add(V("y"), K(1)))])])]))
    # while loops with a public cap
    T.append(("while", [While(C("lt", V("x"), K(2)), 3, [Asg("x", Add(V("x"), K(1))), Asg("y", Add(V("y"), V("x")))])]))
    T.append(("whilebrk", [While(C("lt", V("x"), K(3)), 3, [Asg("x", Add(V("x"), K(1))), Brk(C("eq", V("x"), V("z"))), Asg("y", Add(V("y"), K(1)))])]))
    T.append(("whileif", [While(C("ne", V("x"), V("y")), 2, [If([(C("lt", V("x"), V("y")), [Asg("x", Add(V("x"), K(1)))])], [Asg("y", Add(V("y"), K(1)))])])]))
    T.append(("whilecap", [While(C("ge", V("x"), K(0)), 2, [Asg("y", Add(V("y"), K(1)))])]))
    return T


def fix_loopvar(prog):
    """The nested for uses loop variable j: NativeCF tracks it in env under its own name; map to 'i'-like names it knows."""
    return prog


def inputs_for(name, tier):
    xs = [-1, 0, 1, 2, 3] if tier == "quick" else [-2, -1, 0, 1, 2, 3, 4]
    ys = [-1, 0, 2] if tier == "quick" else [-2, -1, 0, 1, 2, 3]
    zs = [0, 1, 2] if tier == "quick" else [-1, 0, 1, 2, 3]
    fs = [0, 1]
    if name.startswith(("arr", "mat")):
        for x, y, z, f in itertools.product([0, 1, 2], [0, 2], [0, 1, 2], fs):
            yield {"x": x, "y": y, "z": z, "f": f}
        return
    if name.startswith("mixed"):
        for f, b in itertools.product(fs, (0, 1)):
            yield {"f": f, "y": b, "z": 5, "x": 3}
        return
    if name.startswith("div"):
        xs = [v for v in xs if v >= 0]
        ys = [0, 1]
        for x, z, f in itertools.product(xs, zs, fs):
            if name.startswith("divfor") and x % 3:
                continue
            yield {"x": x, "y": x % 2 if not name.startswith("divfor") else 1, "z": z, "f": f}
        return
    if name.startswith("for") or name.startswith("iffor"):
        xs = [v for v in xs if v >= 0]
        zs = [v for v in zs if v >= 0]
    for x, y, z, f in itertools.product(xs, ys, zs, fs):
        yield {"x": x, "y": y, "z": z, "f": f}


def mechanism_part(run, tier):
    """Branching.tla: the merge mechanism is model checked against native control flow for every well-nested event sequence
    within the bounds; every closed sequence is then replayed through the real API and judged by BranchConf.tla."""
    import os
    from harness import tlc
    maxlen = 5 if tier == "quick" else 6
    with common.scratch("br_") as d:
        cf = os.path.join(d, "gen.cfg")
        open(cf, "w").write("SPECIFICATION Spec\nCONSTANT MaxLen = %d\nCONSTANT MaxDepth = 2\nINVARIANT Inv_Native\nINVARIANT Inv_NoSilentLoss\nINVARIANT EmitBeh\nCHECK_DEADLOCK FALSE\n" % maxlen)
        res = tlc.run("Branching", cfg=cf, workers=12, heap="8g")
    run.add_tlc(res, "Branching.tla: mechanism == native for all event sequences of length <= %d" % maxlen)
    if res.violated:
        run.violation({"stage": "design", "invariant": res.violated, "tlc_state": res.state, "summary": "Branching.tla: the transcribed merge mechanism differs from native control flow: %s" % res.state.get("hist")})
        return
    if tier != "quick":
        # longer chains at depth 1 (if / elif / elif / else with assignments in between need 7 events): design check only, the
        # code side of such chains is bound by the elifchain* program texts
        with common.scratch("br7_") as d:
            cf = os.path.join(d, "gen7.cfg")
            open(cf, "w").write("SPECIFICATION Spec\nCONSTANT MaxLen = 7\nCONSTANT MaxDepth = 1\nINVARIANT Inv_Native\nINVARIANT Inv_NoSilentLoss\nCHECK_DEADLOCK FALSE\n")
            res7 = tlc.run("Branching", cfg=cf, workers=12, heap="8g")
        run.add_tlc(res7, "Branching.tla: mechanism == native for all event sequences of length <= 7 at depth 1")
        if res7.violated:
            run.violation({"stage": "design", "invariant": res7.violated, "tlc_state": res7.state, "summary": "Branching.tla (length 7, depth 1) violates %s" % res7.violated})
            return
    behs = [json.loads(json.loads(r)) for r in sorted(set(res.tagged("BEH")))]
    if len(behs) > 30000:
        behs = behs[::len(behs) // 30000 + 1]
    progs = [{"id": "ev/%d" % i, "ign": False, "steps": [{"op": "cfevents", "events": b["hist"], "tag": "main"}], "meta": {}} for i, b in enumerate(behs)]
    traces = common.run_programs({"P": 4099, "bitlength": 5, "resolution": 1}, progs)
    pairs = []
    for b, t in zip(behs, traces):
        e = [x for x in t["events"] if x["op"] == "cfevents"][-1]
        final = {"x": -99, "y": -99, "z": -99}
        if e["out"] == "ok":
            for n, leaf in zip(("x", "y", "z"), e["res"]):
                final[n] = -99 if leaf["k"] == "none" else leaf["v"]
        pairs.append({"id": t["id"], "model": b, "impl": {"raised": e["out"] != "ok", "exc": e["exc"], "final": final, "probes": e.get("probes", [])}})
    run.evaluations += len(pairs)
    run.traces += len(pairs)
    run.notes.append("%d closed event sequences from Branching.tla replayed through the block API" % len(pairs))
    for b in behs[:200]:
        run.nontrivial.add(json.dumps(b["hist"]))
    from concurrent.futures import ThreadPoolExecutor
    chunks = [pairs[i:i + 3000] for i in range(0, len(pairs), 3000)]
    with ThreadPoolExecutor(6) as ex:
        results = list(ex.map(lambda ch: common._tlc_on_chunk("BranchConf", "BranchConf.cfg", {"pairs": ch}, 2, False, False, "3g"), chunks))
    for ci, (ch, r) in enumerate(zip(chunks, results)):
        run.add_tlc(r, "event sequences vs native #%d" % ci)
        if r.violated:
            pr = ch[int(r.state["tid"]) - 1]
            run.violation({"stage": "events", "invariant": r.violated, "tlc_state": r.state, "cfg": {"P": 4099, "bitlength": 5, "resolution": 1},
                           "program": next(p for p in progs if p["id"] == pr["id"]), "pair": pr,
                           "summary": "%s for event sequence %s: code %s, native %s" % (r.violated, json.dumps(pr["model"]["hist"])[:300], pr["impl"], pr["model"]["nat"])})
    if not run.violations:
        with ThreadPoolExecutor(6) as ex:
            dr = list(ex.map(lambda ch: common._tlc_on_chunk("BranchConf", "BranchConfDrift.cfg", {"pairs": ch}, 2, False, False, "3g"), chunks))
        nd = 0
        for ch, r in zip(chunks, dr):
            run.states += r.distinct
            if r.violated:
                nd += 1
                pr = ch[int(r.state["tid"]) - 1]
                print("MODEL-DRIFT: %s: code %s vs Branching.tla err=%s vals=%s for %s" % (r.violated, pr["impl"], pr["model"]["err"], pr["model"]["vals"], json.dumps(pr["model"]["hist"])[:300]))
        run.extra["branching_model_drift_chunks"] = nd


CF_CFG = {"P": 4099, "bitlength": 5, "resolution": 1}


def cf_programs(tier, select=None):
    """op-record programs (one `cf` step each) for every template x input vector; select(name) filters templates"""
    progs = []
    for ti, (name, prog) in enumerate(templates(tier)):
        if select and not select(name):
            continue
        name = "%s.%d" % (name, ti)
        for k, inp in enumerate(inputs_for(name, tier)):
            if not name.startswith(("elif", "nested", "if", "seq", "div", "arr", "mat", "mixed")) and inp["f"] == 1 and name != "iffor":
                continue
            for fty in ("int", "bool") if any(t in name for t in ("if", "elif", "nested")) and k % 3 == 0 else ("int",):
                spec = {n: {"v": v, "ty": "int"} for n, v in inp.items()}
                spec["f"]["ty"] = fty
                inp2 = dict(inp)
                if name.startswith("mixed"):
                    R = CF_CFG["resolution"]
                    spec = {"f": {"v": inp["f"], "ty": "bool"}, "y": {"v": inp["y"], "ty": "bool"}, "z": {"v": inp["z"], "ty": "fxp"}, "x": {"v": inp["x"], "ty": "int"}}
                    # the native twin computes on numbers scaled by 2^R: the fixed-point variable is given by its representation
                    inp2 = {"f": inp["f"] << R, "y": inp["y"] << R, "z": inp["z"], "x": inp["x"] << R}
                if name.startswith("arr"):
                    spec["a"] = {"v": [1, 2, 3], "ty": "array"}
                    inp2.update({"a0": 1, "a1": 2, "a2": 3})
                if name.startswith("mat"):
                    spec["m"] = {"v": [[1, 2], [3, 4]], "ty": "matrix"}
                    inp2.update({"m00": 1, "m01": 2, "m10": 3, "m11": 4})
                progs.append({"id": "%s/%d/%s" % (name, k, fty), "ign": False, "meta": {"name": name, "inputs": inp2, "prog": prog, "fty": fty},
                              "steps": [{"op": "cf", "prog": prog, "inputs": spec, "tag": "main"}]})
    return progs


def cf_runs(progs, traces):
    runs = []
    for p, t in zip(progs, traces):
        e = [x for x in t["events"] if x["op"] == "cf"][-1]
        names = list(p["meta"]["inputs"].keys())
        final = {}
        if e["out"] == "ok":
            for n, leaf in zip(names, e["res"]):
                final[n] = leaf["v"]
                if p["meta"]["name"].startswith("mixed") and leaf["k"] != "fxp":
                    final[n] = leaf["v"] << CF_CFG["resolution"]      # numbers compared at the fixed-point scale
        runs.append({"id": p["id"], "prog": p["meta"]["prog"], "inputs": p["meta"]["inputs"], "out": e["out"], "exc": e["exc"], "final": final})
    return runs


def main(tier):
    run = common.Run("C09", tier)
    mechanism_part(run, tier)
    if run.violations:
        return run.finish(RULE)
    cfg = CF_CFG
    progs = cf_programs(tier)
    traces = common.run_programs(cfg, progs)
    runs = cf_runs(progs, traces)
    for p in progs:
        run.nontrivial.add(json.dumps(p["meta"]["prog"]))
    run.evaluations += len(runs)
    run.samples = [{"program": runs[0]["prog"], "inputs": runs[0]["inputs"], "final": runs[0]["final"]}]
    from concurrent.futures import ThreadPoolExecutor
    chunks = [runs[i:i + 1500] for i in range(0, len(runs), 1500)]
    active = common.active_ids("C09")
    with ThreadPoolExecutor(8) as ex:
        results = list(ex.map(lambda ch: common._tlc_on_chunk("TraceCF", "TraceCF.cfg", {"runs": ch, "active": active}, 2, False, False, "3g"), chunks))
    for ci, (ch, res) in enumerate(zip(chunks, results)):
        run.add_tlc(res, "native twin #%d" % ci)
        run.traces += len(ch)
        if res.violated:
            r = ch[int(res.state["tid"]) - 1]
            run.violation({"stage": "native twin", "invariant": res.violated, "tlc_state": res.state, "cfg": cfg, "run": r,
                           "program": next(p for p in progs if p["id"] == r["id"]),
                           "summary": "%s for %s inputs %s: oblivious run %s %s final %s" % (res.violated, r["id"], r["inputs"], r["out"], r["exc"], r["final"])})
    if not run.violations:
        common.validate_traces(run, "TraceCore", traces, cfg="TraceCore.cfg", label="Sat + value==wire on the same runs", programs=progs, view=views.core, props=["C09"])
    if not run.violations:
        groups = {}
        for p, t in zip(progs, traces):
            groups.setdefault(json.dumps(p["meta"]["prog"]) + p["meta"]["fty"], []).append(t)
        gl = []
        for kk, ts in groups.items():
            complete = [t for t in ts if all(e["out"] == "ok" for e in t["events"])]
            if len(complete) < 2:
                continue
            gl.append({"ref": views.shape(complete[0]), "others": [views.shape(t) for t in complete[1:]]})
        chunks = [gl[i:i + 10] for i in range(0, len(gl), 10)]
        with ThreadPoolExecutor(8) as ex:
            results = list(ex.map(lambda ch: common._tlc_on_chunk("TraceShape", "TraceShape.cfg", {"groups": ch}, 2, False, False, "3g"), chunks))
        for ci, (ch, res) in enumerate(zip(chunks, results)):
            run.add_tlc(res, "shape across branch outcomes #%d" % ci)
            if res.violated:
                g = ch[int(res.state["gid"]) - 1]
                o = g["others"][int(res.state["k"]) - 1]
                run.violation({"stage": "shape", "invariant": res.violated, "tlc_state": res.state, "cfg": cfg,
                               "program": next(p for p in progs if p["id"] == g["ref"]["id"]), "program_b": next(p for p in progs if p["id"] == o["id"]),
                               "summary": "constraints differ between runs %s and %s of the same program" % (g["ref"]["id"], o["id"])})
    return run.finish(RULE, assumptions=["loop bounds are non-negative; variables written in a branch are defined before it"],
                      trusted=["TLC 1.8", "harness/cfdriver.py renders the AST as block-API calls (observer)"])


def replay(rec):
    run = common.Run("C09", "quick")
    p = rec["program"]
    if rec.get("stage") == "events":
        # a closed event sequence of Branching.tla replayed through the block API, judged by BranchConf.tla
        t = common.run_programs(rec["cfg"], [p])[0]
        e = [x for x in t["events"] if x["op"] == "cfevents"][-1]
        final = {"x": -99, "y": -99, "z": -99}
        if e["out"] == "ok":
            for n, leaf in zip(("x", "y", "z"), e["res"]):
                final[n] = -99 if leaf["k"] == "none" else leaf["v"]
        pr = {"id": t["id"], "model": rec["pair"]["model"], "impl": {"raised": e["out"] != "ok", "exc": e["exc"], "final": final, "probes": e.get("probes", [])}}
        res = common._tlc_on_chunk("BranchConf", "BranchConf.cfg", {"pairs": [pr]}, 2, False, False, "2g")
        run.add_tlc(res, "replay")
        print("replay: %s" % ("violation reproduced (%s)" % res.violated if res.violated else "no violation on the current tree"))
        return 1 if res.violated else 0
    if rec.get("stage") == "design":
        return main("quick")
    traces = common.run_programs(rec["cfg"], [p])
    e = [x for x in traces[0]["events"] if x["op"] == "cf"][-1]
    names = list(p["meta"]["inputs"].keys())
    final = {n: leaf["v"] for n, leaf in zip(names, e["res"])} if e["out"] == "ok" else {}
    r = {"id": p["id"], "prog": p["meta"]["prog"], "inputs": p["meta"]["inputs"], "out": e["out"], "exc": e["exc"], "final": final}
    res = common._tlc_on_chunk("TraceCF", "TraceCF.cfg", {"runs": [r], "active": common.active_ids("C09")}, 2, False, False, "2g")
    run.add_tlc(res, "replay")
    print("replay: %s" % ("violation reproduced (%s)" % res.violated if res.violated else "no violation on the current tree"))
    return 1 if res.violated else 0
