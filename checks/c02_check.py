"""C02 soundness: adversarial witness search (Soundness.tla, Inv_Unique) on constraint systems captured from the real code."""
from harness import common, gen, instances

RULE = ("one instance per value-returning operation x operand kinds x operand values x guard mode (none / true guard), constraint system "
        "captured from the real code with operands fixed; TLC enumerates every assignment of the wires the call allocated "
        "(all P values per wire, pruned by ready constraints); distinct = (prime, op, kinds, mode) classes")

CFGS = {"quick": [{"P": 67, "bitlength": 2, "resolution": 1}],
        "thorough": [{"P": 67, "bitlength": 2, "resolution": 1}, {"P": 257, "bitlength": 3, "resolution": 1},
                     {"P": 13, "bitlength": 2, "resolution": 1}, {"P": 1031, "bitlength": 4, "resolution": 2}]}


def pairs(v):
    return [(a, b) for a in v for b in v]


def programs(tier, b, P, res=1):
    progs = []
    lim = 1 << (b - 1)
    inr = list(range(-lim, lim))                 # values that fit the bitlength
    win = list(range(-lim - 1, lim + 2))
    big = tier != "quick" and P <= 300
    modes = ["plain", "g1"]
    arith = ["mul", "truediv", "floordiv", "mod", "divmod", "pow", "lshift", "rshift", "and", "or", "xor"]
    vals = win if (tier != "quick" and P <= 300) else inr + [lim]
    progs += gen.binop_programs("b%d" % b, arith + gen.BIN_CMP, pairs(vals), gen.kinds3(), ["plain"])
    progs += gen.binop_programs("b%d" % b, arith + gen.BIN_CMP, pairs([-lim, -1, 0, 1, lim - 1]), gen.kinds3(), ["g1"] + (["g11"] if tier != "quick" else []))
    progs += gen.unop_programs("b%d" % b, ["abs", "invert"], win, modes)
    progs += gen.meth_programs("b%d" % b, ["check_zero", "check_nonzero", "check_positive", "to_bits", "val"], win, modes)
    progs += gen.meth_programs("b%d" % b, ["to_bits", "check_positive"], range(0, 1 << (b + 1)), ["plain"], args=[[("c", n) for n in range(1, b + 2)]])
    progs += gen.ite_programs("b%d" % b, pairs([-2, 0, 1, 3]), modes)
    bv = [0, 1]
    progs += gen.binop_programs("b%d/bool" % b, ["and", "or", "xor", "mul", "pow"] + gen.BIN_CMP, pairs(bv),
                                [("SB", "SB"), ("SB", "cb"), ("cb", "SB"), ("SB", "S"), ("S", "SB")], modes)
    progs += gen.unop_programs("b%d/bool" % b, ["invert", "abs"], bv, modes, kinds=("SB",))
    # conversions to boolean / if_else
    for v in (0, 1):
        for fn in ("LinCombBool", "ensurebool"):
            for mode in modes:
                B = gen.Builder("b%d/conv/%s/%d/%s" % (b, fn, v, mode), mode, None, {"op": fn, "a": v, "kinds": "S"})
                r = B.opnd(("S", v))
                B.add({"op": "call", "fn": fn, "args": [r], "tag": "main"})
                progs.append(B.build())
    # lazily evaluated selection (callable branches run under a guard)
    for c in (0, 1):
        for (x, y) in pairs([-1, 0, 2]):
            B = gen.Builder("b%d/itelazy/%d/%d,%d" % (b, c, x, y), "plain", None, {"op": "ite_lazy", "a": x, "b": y, "kinds": "SS"})
            rc = B.opnd(("SB", c))
            rx, ry = B.opnd(("S", x)), B.opnd(("S", y))
            B.add({"op": "ite", "cond": rc, "tag": "main",
                   "t": {"body": [{"op": "bin", "name": "mul", "a": rx, "b": ry}], "ret": {"r": 3}},
                   "f": {"body": [{"op": "bin", "name": "add", "a": rx, "b": ry}], "ret": {"r": 4 }}})
            progs.append(B.build())
    # arrays at a secret index
    for n in (1, 2, 3):
        for idx in range(0, n):
            for mode in modes:
                for what in ("get", "set"):
                    B = gen.Builder("b%d/arr/%s/%d/%d/%s" % (b, what, n, idx, mode), mode, None, {"op": "array_" + what, "a": idx, "b": n, "kinds": "S"})
                    items = [B.opnd(("S", (k % 3) - 1)) if k % 2 == 0 else {"c": k + 1} for k in range(n)]
                    ri = B.opnd(("S", idx))
                    rv = B.opnd(("S", 1))
                    base = B.nreg + (1 if mode == "g1" else 0)
                    B.add({"op": "call", "fn": "Array", "args": [{"l": items}]})
                    if what == "get":
                        B.add({"op": "getitem", "a": {"r": base}, "i": ri, "tag": "main"})
                    else:
                        B.add({"op": "setitem", "a": {"r": base}, "i": ri, "v": rv, "tag": "main"})
                    progs.append(B.build())
    # fixed point
    fv = [[n, 2] for n in (-3, -2, -1, 0, 1, 2, 3)]
    for op in ["mul", "truediv", "floordiv", "mod"] + gen.BIN_CMP:
        for x in fv:
            for y in fv:
                for (ka, kb) in (("F", "F"), ("F", "f")):
                    B = gen.Builder("b%d/fxp/%s/%s%s/%d,%d" % (b, op, ka, kb, x[0], y[0]), "plain", None,
                                    {"op": "fxp_" + op, "kinds": ka + kb, "a": x[0] * (1 << res) // x[1], "b": y[0] * (1 << res) // y[1]})   # scaled integers
                    ra, rb = B.opnd((ka, x)), B.opnd((kb, y))
                    B.add({"op": "bin", "name": op, "a": ra, "b": rb, "tag": "main"})
                    progs.append(B.build())
    return progs


def seq_programs(tier="thorough"):
    """State that survives between calls: the same object is used by two gadgets, the first possibly inside a guarded region
    (guard 0: its wires are unconstrained).  End-to-end instances: only the program inputs are fixed."""
    progs = []
    ops = {
        "to_bits": lambda r: {"op": "meth", "name": "to_bits", "a": r},
        "rshift": lambda r: {"op": "bin", "name": "rshift", "a": r, "b": {"c": 1}},
        "lt": lambda r: {"op": "bin", "name": "lt", "a": r, "b": {"c": 1}},
        "check_positive": lambda r: {"op": "meth", "name": "check_positive", "a": r},
        "invert": lambda r: {"op": "un", "name": "invert", "a": r},
        "and": lambda r: {"op": "bin", "name": "and", "a": r, "b": r},
    }
    quick = tier == "quick"
    for o1 in (("to_bits", "lt") if quick else ("to_bits", "rshift", "lt", "check_positive", "and")):
        for o2 in (("to_bits", "rshift", "invert") if quick else ("to_bits", "rshift", "lt", "invert", "and")):
            for x in ((1, 2) if quick else (0, 1, 2, 3)):
                for g in (("none", 0) if quick else ("none", 0, 1)):
                    B = gen.Builder("seq/%s-%s/%d/%s" % (o1, o2, x, g), "plain", None, {"op": "seq_%s_%s" % (o1, o2), "kinds": "S", "a": x, "gmode": str(g)})
                    rx = B.opnd(("S", x))
                    if g == "none":
                        B.add(ops[o1](rx))
                    else:
                        rg = B.opnd(("SB", g))
                        B.add({"op": "guarded", "cond": rg, "body": [ops[o1](rx)]})
                    st = ops[o2](rx)
                    st["tag"] = "main"
                    B.add(st)
                    progs.append(B.build())
    # ... and after a region that was left through an exception the caller caught (nothing of the region may linger)
    for o2 in (("lt", "to_bits") if quick else ("lt", "to_bits", "rshift", "invert")):
        for x in ((1, 2) if quick else (0, 1, 2, 3)):
            for how in ("zerodiv", "user"):
                B = gen.Builder("seqexc/%s/%s/%d" % (how, o2, x), "plain", None, {"op": "seqexc_%s" % o2, "kinds": "S", "a": x, "gmode": how})
                rx, rz, rg = B.opnd(("S", x)), B.opnd(("S", 0)), B.opnd(("SB", 0))
                bad = {"op": "bin", "name": "floordiv", "a": rx, "b": rz} if how == "zerodiv" else {"op": "raise"}
                B.add({"op": "try", "body": [{"op": "guarded", "cond": rg, "body": [bad]}]})
                st = ops[o2](rx)
                st["tag"] = "main"
                B.add(st)
                progs.append(B.build())
    return progs


def block_programs(tier="thorough"):
    """Block-API programs (_if/_elif/_else, nested) whose conditions and operands are program inputs: end to end, every wire the
    block API allocates (conjunctions of conditions, negations, merges, dummies of guarded constraints in arms that are not taken)
    is adversarial, the merged variables must still be determined.  (A block nested inside an arm that is not taken allocates about
    ten unconstrained wires -- the conjunction of guards decomposes both operands under a false guard --, 13^10 completions: left to
    the honest-run comparison with native control flow of C09.)"""
    from checks.c09_check import V, K, Add, C, CV, Asg, If
    T = [("elif", ["f", "g"], [If([(CV("f"), [Asg("y", K(7))]), (CV("g"), [Asg("y", K(9))])], [Asg("y", K(3))])]),
         ("elif_noelse", ["f", "g"], [If([(CV("f"), [Asg("y", K(7))]), (CV("g"), [Asg("y", Add(V("x"), K(1)))])])]),
         ("elif3", ["f", "g", "h"], [If([(CV("f"), [Asg("y", K(7))]), (CV("g"), [Asg("y", K(9))]), (CV("h"), [Asg("y", K(11))])], [Asg("y", K(3))])]),
         ("ifelse", ["f"], [If([(CV("f"), [Asg("y", Add(V("x"), K(1)))])], [Asg("y", K(3))])]),
         ("cmp", ["f"], [If([(C("lt", V("x"), K(1)), [Asg("y", K(7))]), (CV("f"), [Asg("y", K(9))])], [Asg("y", K(3))])])]
    if tier == "quick":
        T = [t for t in T if t[0] in ("elif", "elif_noelse", "cmp")]
    progs = []
    import itertools
    for name, flags, prog in T:
        for bits in itertools.product((0, 1), repeat=len(flags)):
            for x in ((1,) if tier == "quick" else (0, 1)):
                B = gen.Builder("blk/%s/%s/%d" % (name, "".join(map(str, bits)), x), "plain", None, {"op": "block_" + name, "kinds": "B" * len(flags), "a": x, "gmode": "".join(map(str, bits))})
                refs = {"x": B.opnd(("S", x)), "y": B.opnd(("S", 2))}
                for fl, bv in zip(flags, bits):
                    refs[fl] = B.opnd(("SB", bv))
                spec = {n: {"ref": r, "ty": "ref"} for n, r in refs.items()}
                B.add({"op": "cf", "prog": prog, "inputs": spec, "tag": "main"})
                progs.append(B.build())
    return progs


def heavy(i):
    """Families built on the division gadget: their accepted-witness space is large (known finding), so they are
    searched exhaustively in the tiny field and only re-confirmed on a few instances in the field with margin."""
    return i["op"] in ("floordiv", "mod", "divmod", "fxp_mul", "fxp_truediv", "fxp_floordiv", "fxp_mod") or \
        (i["op"] == "rshift" and i["kinds"] in ("SS", "cS"))


def collect(run, cfg, tier, want_heavy, cap_per_family=None):
    progs = programs(tier, cfg["bitlength"], cfg["P"], cfg["resolution"])
    traces = common.run_programs(cfg, progs)
    insts, skipped, fam, big_skipped = [], 0, {}, 0
    for tr in traces:
        inst = instances.from_trace(tr, "unique")
        if inst is None or inst["out"] != "ok" or not inst["res"]:
            skipped += 1
            continue
        if heavy(inst) != want_heavy:
            continue
        if cfg["P"] > 100 and inst["op"] in ("lshift", "pow") and inst["kinds"] in ("SS", "cS"):
            # shift by / power with a secret exponent: the selected powers are products of free wires; at P=257 ten instances do
            # not finish in 200 s (measured), these families are searched exhaustively at P=67 only
            big_skipped += 1
            continue
        k = (inst["op"], inst["kinds"], inst["gmode"])
        fam[k] = fam.get(k, 0) + 1
        if cap_per_family and fam[k] > cap_per_family:
            continue
        insts.append(inst)
        run.nontrivial.add((cfg["P"],) + k)
    run.evaluations += len(insts)
    run.notes.append("P=%d b=%d %s: %d instances (%d calls raised or returned no secret: not judged%s)" % (
        cfg["P"], cfg["bitlength"], "division-based" if want_heavy else "other", len(insts), skipped,
        "; %d secret-exponent instances left to the smaller field" % big_skipped if big_skipped else ""))
    if len(run.samples) < 2 and insts:
        run.samples.append(insts[len(insts) // 2])
    common.validate_insts(run, "Soundness", insts, cfg="Soundness_C02.cfg",
                          label="P=%d,b=%d,%s" % (cfg["P"], cfg["bitlength"], "div" if want_heavy else "main"), programs=progs,
                          chunk=250 if cfg["P"] < 100 else 40, parallel=8)


def main(tier):
    run = common.Run("C02", tier)
    plan = [({"P": 67, "bitlength": 2, "resolution": 1}, False, None),
            ({"P": 13, "bitlength": 2, "resolution": 1}, True, None)]
    if tier != "quick":
        plan += [({"P": 67, "bitlength": 2, "resolution": 1}, True, 1),
                 ({"P": 257, "bitlength": 3, "resolution": 1}, False, 8),
                 ({"P": 17, "bitlength": 2, "resolution": 2}, True, 12)]
    for cfg, hv, cap in plan:
        collect(run, cfg, tier, hv, cap)
        if run.violations:
            break
    if not run.violations:
        # sequences on the same object, end to end (tiny field: wires of a false-guard region are all free)
        scfg = {"P": 13, "bitlength": 2, "resolution": 1}
        sp = seq_programs(tier)
        st = common.run_programs(scfg, sp, fresh=True)          # one interpreter per program: these are about state that survives between calls
        insts = [i for i in (instances.from_trace_e2e(t, "unique") for t in st) if i and i["out"] == "ok" and i["res"]]
        for i in insts:
            run.nontrivial.add((13, i["op"], "e2e", i["gmode"]))
        run.evaluations += len(insts)
        run.notes.append("P=13 b=2 end-to-end sequences on one object: %d instances" % len(insts))
        common.validate_insts(run, "Soundness", insts, cfg="Soundness_C02.cfg", label="e2e sequences", programs=sp, chunk=25, parallel=8)
    if not run.violations:
        bp = block_programs(tier)
        bt = common.run_programs({"P": 13, "bitlength": 2, "resolution": 1}, bp, fresh=True)
        insts = [i for i in (instances.from_trace_e2e(t, "unique") for t in bt) if i and i["out"] == "ok" and i["res"]]
        for i in insts:
            run.nontrivial.add((13, i["op"], "e2e", i["gmode"]))
        run.evaluations += len(insts)
        run.notes.append("P=13 b=2 end-to-end block-API programs: %d instances" % len(insts))
        common.validate_insts(run, "Soundness", insts, cfg="Soundness_C02.cfg", label="e2e blocks", programs=bp, chunk=6, parallel=8)
    run.exhaustive = True
    return run.finish(RULE, assumptions=["uniqueness is decided per operation with operands fixed; longer programs rely on composition",
                                         "small-prime instantiation; no-wrap margin P > 2^(2b+2) for the main families, the division-based families (known finding) are enumerated in a tiny field and re-confirmed on a few instances with margin; transfer to the 254-bit field assumes the gadgets are uniform in the field"],
                      trusted=["TLC 1.8", "harness/recorder.py, driver.py, instances.py (observers)"])


def replay(rec):
    run = common.Run("C02", "quick")
    traces = common.run_programs(rec["cfg"], [rec["program"]])
    insts = [i for i in (instances.from_trace(t, "unique") for t in traces) if i and i["out"] == "ok" and i["res"]]
    common.validate_insts(run, "Soundness", insts, cfg="Soundness_C02.cfg", label="replay", programs=[rec["program"]])
    print("replay: %s" % ("violation reproduced" if run.violations else "no violation on the current tree"))
    return 1 if run.violations else 0
