"""C08: guard state is restored on every exit path and nests as a conjunction.
Guard.tla (mechanism + contract) is model checked; TLC prints every complete history; each history is rendered as a program,
run on the real code, and the recorded trace is validated against Guard.tla by TraceGuard.tla."""
import json
import os

from harness import common, tlc

RULE = ("all histories of entering, leaving, aborting (exception at any point, caught by a user try or escaping to top level), rejected "
        "entries, nested try blocks and top-level ignore_errors switches, up to the stated length and nesting depth with guard values "
        "in {0,1}, enumerated exhaustively by TLC from Guard.tla and each replayed into the real code; distinct = histories")


def gen_histories(run, maxlen, maxdepth, simulate=None, kinds="{0, 1}"):
    with common.scratch("gen_") as d:
        cf = os.path.join(d, "gen.cfg")
        with open(cf, "w") as f:
            f.write("SPECIFICATION Spec\nCONSTANT MaxDepth = %d\nCONSTANT MaxLen = %d\nCONSTANT RaiseKinds = %s\nINVARIANT EmitHist\nCHECK_DEADLOCK FALSE\n" % (maxdepth, maxlen, kinds))
        res = tlc.run("Guard", cfg=cf, workers=8, simulate=simulate, depth=(maxlen * 3 if simulate else None), seed=common.seed() if simulate else None)
    run.add_tlc(res, "Guard history generator")
    hs = set()
    for rec in res.tagged("BEH"):
        hs.add(json.loads(rec))   # the record is a JSON string literal
    return [json.loads(h) for h in sorted(hs)]


def check_design(run, maxlen, maxdepth):
    with common.scratch("mc_") as d:
        cf = os.path.join(d, "mc.cfg")
        base = open(os.path.join(tlc.SPEC_DIR, "Guard.cfg")).read()
        base = base.replace("MaxDepth = 3", "MaxDepth = %d" % maxdepth).replace("MaxLen = 6", "MaxLen = %d" % maxlen)
        with open(cf, "w") as f:
            f.write(base)
        res = tlc.run("Guard", cfg=cf, workers=8, coverage=True)
    run.add_tlc(res, "Guard.tla design-level check")
    if res.violated:
        run.violation({"stage": "design", "invariant": res.violated, "tlc_state": res.state,
                       "summary": "Guard.tla itself violates %s (specification error)" % res.violated})


def to_program(pid, hist, style="guarded", reuse=False):
    """Render a history as a driver program; returns (program, expected history).
    reuse=True: a region entered directly inside a region with the same condition value goes through the SAME guarded(cond) object
    (a recursive guarded function, two functions sharing one decorator object): guarded objects must be re-entrant."""
    top = []
    stack = [top]         # bodies being filled
    kinds = []            # frame kinds
    gconds = {}           # depth -> (register, value) of the condition of the guard frame at that depth (None: constant / try)
    n = 0
    for h in hist:
        a = h["a"]
        if a == "enter":
            enc = gconds.get(len(kinds)) if kinds and kinds[-1] == "guard" else None
            if reuse and enc is not None and enc[1] == h["c"]:
                body = []
                stack[-1].append({"op": "guarded", "cond": {"r": enc[0]}, "body": body, "same": True})
                stack.append(body)
                kinds.append("guard")
                gconds[len(kinds)] = enc
                continue
            stack[-1].append({"op": "new", "kind": "priv", "ty": "int", "v": h["c"], "tag": "cond"})
            body = []
            stack[-1].append({"op": "guarded", "cond": {"r": n}, "body": body})
            stack.append(body)
            kinds.append("guard")
            gconds[len(kinds)] = (n, h["c"])
            n += 1
        elif a == "enter_const":
            body = []
            stack[-1].append({"op": "guarded", "cond": {"c": 1}, "body": body, "tag": "constguard"})
            stack.append(body)
            kinds.append("guard")
            gconds[len(kinds)] = None
        elif a == "setign_in":
            stack[-1].append({"op": "ignore", "v": bool(h["c"]), "tag": "inside"})
            n += 1
        elif a == "enter_rejected":
            stack[-1].append({"op": "new", "kind": "priv", "ty": "int", "v": 2, "tag": "cond"})
            stack[-1].append({"op": "guarded", "cond": {"r": n}, "body": []})
            n += 2
            n += unwind(stack, kinds)
        elif a == "leave":
            stack.pop()
            kinds.pop()
            n += 1
        elif a == "raise":
            stack[-1].append({"op": "raise", "kind": ["", "KeyboardInterrupt", "SystemExit", "GeneratorExit"][h["c"]]})
            n += 1
            n += unwind(stack, kinds)
        elif a == "try":
            body = []
            stack[-1].append({"op": "try", "body": body})
            stack.append(body)
            kinds.append("try")
            gconds[len(kinds)] = None
        elif a == "endtry":
            stack.pop()
            kinds.pop()
            n += 1
        elif a == "call":
            stack[-1].append({"op": "call", "fn": "ensurelc", "args": [{"c": 3}]} if n % 2 else {"op": "new", "kind": "priv", "ty": "int", "v": 1})
            n += 1
        elif a == "setign":
            stack[-1].append({"op": "ignore", "v": bool(h["c"])})
            n += 1
    return {"id": pid, "ign": False, "steps": top, "meta": {"hist": hist}}


def unwind(stack, kinds):
    """An exception closes frames up to and including the nearest try (or all). Returns number of registers the closed compounds append."""
    k = 0
    while kinds:
        t = kinds.pop()
        stack.pop()
        k += 1
        if t == "try":
            break
    return k


def block_api_error_programs(run, tier):
    """Event sequences of the block API (from Branching.tla) that end in a structural error raised by the API itself while it
    leaves a branch ("branch did not set value", "if branch set ... and no else branch", ...), at top level and inside a
    guarded region; the caller catches the error.  Expected history for Guard.tla: the error is a raise (+ unwinding)."""
    import os
    from harness import tlc
    with common.scratch("brx_") as d:
        cf = os.path.join(d, "gen.cfg")
        open(cf, "w").write("SPECIFICATION Spec\nCONSTANT MaxLen = 5\nCONSTANT MaxDepth = 2\nINVARIANT EmitErr\nCHECK_DEADLOCK FALSE\n")
        res = tlc.run("Branching", cfg=cf, workers=8)
    run.add_tlc(res, "Branching.tla: event sequences ending in a structural error of the block API")
    behs = [json.loads(json.loads(r)) for r in sorted(set(res.tagged("ERR")))]

    def outermost(h):
        # the error must be raised while the OUTERMOST block is being left: an exception inside a block that stays open has no
        # abort path in this API (the enclosing block can never be closed), which the property does not speak about
        d = 0
        for e in h[:-1]:
            if e["a"] == "if" or (e["a"] == "while" and not (d > 0 and kinds[-1] == "while")):
                d += 1
                kinds.append(e["a"])
            elif e["a"] in ("endif", "endwhile"):
                d -= 1
                kinds.pop()
        return d == 1
    keep = []
    for bh in behs:
        kinds = []
        if outermost(bh["hist"]):
            keep.append(bh)
    behs = keep
    step = max(1, len(behs) // (150 if tier == "quick" else 1500))
    progs = []
    for i, bh in enumerate(behs[::step]):
        ev = {"op": "cfevents", "events": bh["hist"]}
        progs.append({"id": "blk/top/%d" % i, "ign": False, "steps": [{"op": "try", "body": [ev]}, {"op": "new", "kind": "priv", "ty": "int", "v": 1}],
                      "meta": {"hist": [{"a": "try", "c": 0}, {"a": "raise", "c": 0}, {"a": "call", "c": 0}]}})
        for g in (0, 1):
            progs.append({"id": "blk/g%d/%d" % (g, i), "ign": False,
                          "steps": [{"op": "new", "kind": "priv", "ty": "int", "v": g, "tag": "cond"}, {"op": "try", "body": [{"op": "guarded", "cond": {"r": 0}, "body": [ev]}]},
                                    {"op": "new", "kind": "priv", "ty": "int", "v": 1}],
                          "meta": {"hist": [{"a": "try", "c": 0}, {"a": "enter", "c": g}, {"a": "raise", "c": 0}, {"a": "call", "c": 0}]}})
    return progs


def block_api_elif_guard(run, tier):
    """Closed event sequences of Branching.tla that contain an _elif: replayed through the block API with a probe inside the
    condition function; BranchConf!Inv_ElifGuard compares the guard active at that moment with the conjunction of the enclosing
    conditions (the previous arm's region has ended by then)."""
    import os
    from concurrent.futures import ThreadPoolExecutor
    from harness import tlc
    with common.scratch("bre_") as d:
        cf = os.path.join(d, "gen.cfg")
        open(cf, "w").write("SPECIFICATION Spec\nCONSTANT MaxLen = %d\nCONSTANT MaxDepth = 2\nINVARIANT EmitBeh\nCHECK_DEADLOCK FALSE\n" % (5 if tier == "quick" else 6))
        res = tlc.run("Branching", cfg=cf, workers=8, heap="6g")
    run.add_tlc(res, "Branching.tla: closed event sequences with an _elif")
    behs = [json.loads(json.loads(r)) for r in sorted(set(res.tagged("BEH")))]
    behs = [b for b in behs if any(h["a"] == "elif" for h in b["hist"]) and not b["err"]]
    step = max(1, len(behs) // (3000 if tier == "quick" else 20000))
    behs = behs[::step]
    progs = [{"id": "elifg/%d" % i, "ign": False, "steps": [{"op": "cfevents", "events": b["hist"], "tag": "main"}], "meta": {}} for i, b in enumerate(behs)]
    cfg = {"P": 4099, "bitlength": 5, "resolution": 1}
    traces = common.run_programs(cfg, progs)
    pairs = []
    for b, t in zip(behs, traces):
        e = [x for x in t["events"] if x["op"] == "cfevents"][-1]
        pairs.append({"id": t["id"], "model": b, "impl": {"raised": e["out"] != "ok", "exc": e["exc"], "final": {"x": 0, "y": 0, "z": 0}, "probes": e.get("probes", [])}})
    run.evaluations += len(pairs)
    run.traces += len(pairs)
    run.notes.append("%d block-API sequences with _elif: guard probed inside the condition function" % len(pairs))
    chunks = [pairs[i:i + 1500] for i in range(0, len(pairs), 1500)]
    with ThreadPoolExecutor(6) as ex:
        results = list(ex.map(lambda ch: common._tlc_on_chunk("BranchConf", "BranchConfGuard.cfg", {"pairs": ch}, 2, False, False, "3g"), chunks))
    for ch, r in zip(chunks, results):
        run.add_tlc(r, "guard inside _elif conditions")
        if r.violated:
            pr = ch[int(r.state["tid"]) - 1]
            run.violation({"stage": "elif-guard", "invariant": r.violated, "tlc_state": r.state, "cfg": cfg, "pair": pr,
                           "program": next(p for p in progs if p["id"] == pr["id"]),
                           "summary": "%s for block-API sequence %s: guard seen by the _elif conditions %s, enclosing conjunctions %s" % (
                               r.violated, json.dumps([h["a"] + str(h["c"]) for h in pr["model"]["hist"]]), pr["impl"]["probes"], [h["g"] for h in pr["model"]["hist"] if h["a"] == "elif"])})


def view(tr):
    evs = []
    for e in tr["events"]:
        op = e["op"]
        g = e["g"]
        ev = {"seq": e["seq"], "c": 0, "hask3": False, "k3": [],
              "g": {"has": g["has"], "v": g["v"], "ign": g["ign"], "oneconst": g["oneconst"], "tok": g["tok"], "onetok": g["onetok"], "lc": g["lc"]}}
        if op == "call" and e.get("name") == "ensurelc" and e["out"] == "ok" and len(e["res"]) == 1:
            ev["hask3"], ev["k3"] = True, e["res"][0]["lc"]
        if op in ("guarded_enter", "try_enter") and op == "guarded_enter":
            ev["ev"] = "marker"
        elif op == "try_enter":
            ev["ev"] = "try_enter"
        elif op == "body_enter":
            c = e["args"][0][0]
            ev["ev"] = "enter_const" if c["k"] in ("pyint", "pybool") else "enter"
            ev["c"] = c["v"]
        elif op == "guarded":
            ev["ev"] = "leave" if e["out"] == "ok" else ("abort" if e.get("entered") else "rejected")
        elif op == "try":
            ev["ev"] = "try_caught" if e.get("caught") else "try_done"
        elif op == "ignore":
            ev["ev"] = "setign_in" if e.get("tag") == "inside" else "setign"
            ev["c"] = 1 if g["ign"] else 0
        elif op == "end" or e.get("tag") == "cond":
            ev["ev"] = "marker"
        elif op == "cfevents_enter":
            ev["ev"] = "marker"
        elif e["out"] == "raise":
            ev["ev"] = "raise"
            ev["c"] = {"KeyboardInterrupt": 1, "SystemExit": 2, "GeneratorExit": 3}.get(e["exc"], 0)
        else:
            ev["ev"] = "call"
        evs.append(ev)
    return {"id": tr["id"], "P": tr["cfg"]["P"], "events": evs, "expect": tr["meta"]["hist"]}


def inductive(run):
    """GuardInd.tla: the contract invariants are INDUCTIVE for the unbounded next-state relation (no bound on the length of the
    history, nesting depth <= 3): base case Init => IndInv, step: every successor of every state satisfying IndInv satisfies it."""
    for cfg, what in (("GuardIndBase.cfg", "base case Init => IndInv"), ("GuardInd.cfg", "inductive step over all states satisfying IndInv")):
        res = tlc.run("GuardInd", cfg=cfg, workers=8, heap="6g")
        run.add_tlc(res, "GuardInd.tla: " + what)
        if res.violated:
            run.violation({"stage": "design", "invariant": res.violated, "tlc_state": res.state,
                           "summary": "GuardInd.tla: %s fails (%s): the guard invariants are not inductive in Guard.tla" % (what, res.violated)})
            return
    run.notes.append("Guard.tla invariants (NestConj, OneBound, clean at top level, saved == state at entry) shown inductive with TLC: histories of any length, depth <= 3")


def main(tier):
    run = common.Run("C08", tier)
    maxlen, maxdepth = (5, 3) if tier == "quick" else (7, 4)
    check_design(run, maxlen, maxdepth)
    inductive(run)
    hists = gen_histories(run, maxlen if tier == "quick" else 7, maxdepth)
    # the same machinery with all four exception kinds (shorter histories: the kind multiplies the space)
    hists += [h for h in gen_histories(run, 4 if tier == "quick" else 5, maxdepth, kinds="{0, 1, 2, 3}") if any(x["a"] == "raise" and x["c"] >= 2 for x in h)]
    if tier != "quick":
        hists += gen_histories(run, 14, 6, simulate="num=4000")
    progs = [to_program("h%d" % i, h) for i, h in enumerate(hists)]
    # the same histories with re-entered guarded objects wherever a region sits directly inside one with the same condition value
    for i, h in enumerate(hists):
        q = to_program("h%d/same" % i, h, reuse=True)
        if json.dumps(q["steps"]) != json.dumps(progs[i]["steps"]):
            progs.append(q)
    progs += block_api_error_programs(run, tier)
    cfg = {"P": 257, "bitlength": 3, "resolution": 1}
    traces = common.run_programs(cfg, progs)
    run.evaluations += len(traces)
    for h in hists:
        run.nontrivial.add(json.dumps(h))
    run.samples = [{"history": hists[i], "program": progs[i]["steps"]} for i in (0, len(hists) // 2)]
    run.exhaustive = True
    common.validate_traces(run, "TraceGuard", traces, cfg="TraceGuard.cfg", label="conformance", programs=progs, view=view, chunk=1500, parallel=8)
    if not run.violations:
        block_api_elif_guard(run, tier)
    if not run.violations:
        r2 = common.Run("C08", tier)
        res = common.validate_traces(r2, "TraceGuard", traces, cfg="TraceGuardDrift.cfg", label="drift", programs=progs, view=view, chunk=1500, parallel=8)
        run.states += r2.states
        run.transitions += r2.transitions
        drift = [r for r in res if r.violated]
        # drift is recorded, never an alarm; the replay files written by r2 are informational
        run.extra["model_drift"] = len(drift)
        if drift:
            print("MODEL-DRIFT: the code's ignore/ONE handling inside regions differs from Guard.tla (not a C08 violation); see evidence")
            for pth in r2.violations:
                os.rename(pth, pth.replace(".json", ".drift.json"))
    return run.finish(RULE, assumptions=["a region's condition is a secret of value 0/1 (or 2 for rejected entries)",
                                         "exceptions propagate through guarded regions to the nearest user try block or to top level"],
                      trusted=["TLC 1.8", "harness observers"])


def replay(rec):
    run = common.Run("C08", "quick")
    traces = common.run_programs(rec["cfg"], [rec["program"]])
    common.validate_traces(run, "TraceGuard", traces, cfg="TraceGuard.cfg", label="replay", programs=[rec["program"]], view=view)
    print("replay: %s" % ("violation reproduced" if run.violations else "no violation on the current tree"))
    return 1 if run.violations else 0
