"""Program families shared by C01 (completeness) and C04 (value == wire expression)."""
from harness import gen


def pairs(vals):
    return [(a, b) for a in vals for b in vals]


def families(tier, seed, b):
    """Return a list of programs for bitlength b."""
    progs = []
    win = gen.window(b, 1)                     # -2^b-1 .. 2^b+1
    core = [v for v in win if abs(v) <= (1 << (b - 1)) + 1]
    modes_full = ["plain", "g1", "g0", "ign"]
    modes_more = ["g0ign", "g10", "g01", "g11"]
    small = [-(1 << (b - 1)), -1, 0, 1, 2, (1 << (b - 1)) - 1, (1 << (b - 1))]
    small = sorted(set(small))
    if tier == "quick":
        p_full = pairs(core)
        p_modes = pairs(small)
    else:
        p_full = pairs(win)
        p_modes = pairs(core)
    progs += gen.binop_programs("b%d" % b, gen.BIN_ARITH + gen.BIN_CMP, p_full, gen.kinds3(), ["plain"])
    progs += gen.binop_programs("b%d" % b, gen.BIN_ARITH + gen.BIN_CMP, p_modes, gen.kinds3(), ["g1", "g0", "ign"])
    progs += gen.binop_programs("b%d" % b, gen.BIN_ARITH + gen.BIN_CMP, pairs([-1, 0, 1, 2, 3]), [("S", "S"), ("S", "c")], modes_more)
    progs += gen.binop_programs("b%d" % b, ["add", "sub", "mul", "eq", "lt"], pairs(small), [("U", "S"), ("K", "S"), ("S", "K"), ("U", "U")], ["plain", "g0"])
    progs += gen.unop_programs("b%d" % b, gen.UN, win, modes_full + ["g0ign"])
    progs += gen.meth_programs("b%d" % b, gen.CHECK1 + gen.ASSERT1 + ["val", "to_bits"], win, modes_full + ["g0ign", "g10"])
    progs += gen.meth_programs("b%d" % b, gen.ASSERT2, core, modes_full, args=[[("S", v) for v in small] + [("c", v) for v in small]])
    progs += gen.meth_programs("b%d" % b, ["assert_range"], core, modes_full, args=[[("c", -1), ("c", 0)], [("c", 2), ("S", 3)]])
    progs += gen.meth_programs("b%d" % b, ["to_bits", "check_positive", "assert_positive"], range(-1, (1 << (b + 1)) + 1), modes_full,
                               args=[[("c", n) for n in range(1, b + 2)]])
    progs += gen.ite_programs("b%d" % b, pairs([-2, 0, 1, 3]), modes_full)
    # booleans
    bvals = [0, 1]
    progs += gen.binop_programs("b%d/bool" % b, ["and", "or", "xor", "add", "sub", "mul", "pow"] + gen.BIN_CMP, pairs(bvals),
                                [("SB", "SB"), ("SB", "cb"), ("cb", "SB"), ("SB", "S"), ("S", "SB"), ("SB", "c"), ("c", "SB"), ("UB", "SB")], modes_full)
    progs += gen.unop_programs("b%d/bool" % b, ["invert", "neg", "pos", "abs"], bvals, modes_full, kinds=("SB",))
    progs += gen.meth_programs("b%d/bool" % b, gen.ASSERT2, bvals, modes_full, kind="SB", args=[[("SB", 0), ("SB", 1), ("c", 0), ("c", 1)]])
    progs += gen.meth_programs("b%d/bool" % b, ["check_positive", "assert_positive", "check_zero", "assert_zero", "assert_nonzero", "val"], bvals, modes_full, kind="SB")
    # conversions
    for v in [-1, 0, 1, 2]:
        for mode in modes_full + ["g0ign"]:
            for fn in ("LinCombBool", "ensurebool", "LinCombFxp", "ensurefxp"):
                B = gen.Builder("b%d/conv/%s/%d/%s" % (b, fn, v, mode), mode, None, {"op": fn, "a": v})
                r = B.opnd(("S", v))
                B.add({"op": "call", "fn": fn, "args": [r], "tag": "main"})
                progs.append(B.build())
    # a boolean-typed object holding a value that is NOT 0/1 exists wherever checks are off (ignore-errors mode, a false guard):
    # every operator of the boolean class must still keep value and wire together on it
    for v in (-1, 2, 5):
        for mode in ("ign", "g0", "g0ign"):
            for nm, mk in (("invert", lambda r: {"op": "un", "name": "invert", "a": r}), ("neg", lambda r: {"op": "un", "name": "neg", "a": r}),
                           ("and1", lambda r: {"op": "bin", "name": "and", "a": r, "b": {"b": True}}), ("xor1", lambda r: {"op": "bin", "name": "xor", "a": r, "b": {"c": 1}}),
                           ("orself", lambda r: {"op": "bin", "name": "or", "a": r, "b": r}), ("mul", lambda r: {"op": "bin", "name": "mul", "a": r, "b": r}),
                           ("inv2", None)):
                B = gen.Builder("b%d/nonbool/%s/%d/%s" % (b, nm, v, mode), mode, None, {"op": "nonbool_" + nm, "kinds": "S"})
                r = B.opnd(("S", v))
                base = gen.Builder.body_base(B.nreg, mode, "lc")
                B.add({"op": "call", "fn": "LinCombBool", "args": [r]})
                if nm == "inv2":
                    B.add({"op": "un", "name": "invert", "a": {"r": base}})
                    B.add({"op": "un", "name": "invert", "a": {"r": base + 1}, "tag": "main"})
                else:
                    st = mk({"r": base})
                    st["tag"] = "main"
                    B.add(st)
                progs.append(B.build())
    # from_bits is public API: any secrets (not only 0/1), constants and booleans, also with checks off
    for vals in ((0, 1), (1, 1), (3, 1), (2, 3), (-1, 2), (1, 0, 1), (3, 3, 1)):
        for kinds in ("S", "SB", "mix"):
            for mode in modes_full + ["g0ign"]:
                B = gen.Builder("b%d/from_bits/%s/%s/%s" % (b, kinds, "_".join(map(str, vals)), mode), mode, None, {"op": "from_bits", "kinds": kinds})
                refs = []
                for k, v in enumerate(vals):
                    if kinds == "SB":
                        refs.append(B.opnd(("SB", v & 1)))
                    elif kinds == "mix" and k % 2:
                        refs.append({"c": v})
                    else:
                        refs.append(B.opnd(("S", v)))
                B.add({"op": "call", "fn": "from_bits", "args": [{"l": refs}], "tag": "main"})
                progs.append(B.build())
    # fixed point (resolution from cfg)
    fvals = [[n, 2] for n in range(-4, 5)]
    fp = [(x, y) for x in fvals for y in fvals]
    for op in ["add", "sub", "mul", "truediv", "floordiv", "mod"] + gen.BIN_CMP:
        for (x, y) in (fp if tier != "quick" else fp[::3]):
            for (ka, kb) in (("F", "F"), ("F", "f"), ("f", "F")):
                for mode in (["plain", "g0"] if tier == "quick" else modes_full):
                    B = gen.Builder("b%d/fxp/%s/%s%s/%d,%d/%s" % (b, op, ka, kb, x[0], y[0], mode), mode, None, {"op": op})
                    ra, rb = B.opnd((ka, x)), B.opnd((kb, y))
                    B.add({"op": "bin", "name": op, "a": ra, "b": rb, "tag": "main"})
                    progs.append(B.build())
        for x in fvals[::2]:
            for iv in (-2, 0, 1, 3):
                for (ka, kb) in (("F", "S"), ("S", "F"), ("F", "c"), ("c", "F"), ("F", "SB")):
                    B = gen.Builder("b%d/fxpmix/%s/%s%s/%d,%d" % (b, op, ka, kb, x[0], iv), "plain", None, {"op": op})
                    va = x if ka == "F" else (iv if ka != "SB" else iv & 1)
                    vb = x if kb == "F" else (iv if kb != "SB" else iv & 1)
                    ra, rb = B.opnd((ka, va)), B.opnd((kb, vb))
                    B.add({"op": "bin", "name": op, "a": ra, "b": rb, "tag": "main"})
                    progs.append(B.build())
    # arrays with secret index
    for n in (1, 2, 3):
        for idx in range(-1, n + 1):
            for mode in ("plain", "ign", "g0", "g1"):
                B = gen.Builder("b%d/arr/get/%d/%d/%s" % (b, n, idx, mode), mode, None, {"op": "array_get"})
                items = [B.opnd(("S", k + 1)) if k % 2 == 0 else {"c": k + 1} for k in range(n)]
                ri = B.opnd(("S", idx))
                base = B.nreg + {"plain": 0, "ign": 0, "g0": 1, "g1": 1}[mode]
                B.add({"op": "call", "fn": "Array", "args": [{"l": items}]})
                B.add({"op": "getitem", "a": {"r": base}, "i": ri, "tag": "main"})
                progs.append(B.build())
                B = gen.Builder("b%d/arr/set/%d/%d/%s" % (b, n, idx, mode), mode, None, {"op": "array_set"})
                items = [B.opnd(("S", k + 1)) if k % 2 == 0 else {"c": k + 1} for k in range(n)]
                ri = B.opnd(("S", idx))
                rv = B.opnd(("S", 3))
                base = B.nreg + {"plain": 0, "ign": 0, "g0": 1, "g1": 1}[mode]
                B.add({"op": "call", "fn": "Array", "args": [{"l": items}]})
                B.add({"op": "setitem", "a": {"r": base}, "i": ri, "v": rv, "tag": "main"})
                progs.append(B.build())
    # the same calls AFTER a region was entered and left (guard 0 / 1, a lazily evaluated selection, a region left through an exception
    # the program catches): whatever the region leaves behind must not change what a later, unrelated call does
    def after(pid, pre, meta, opnds, mk):
        B = gen.Builder(pid, "plain", None, dict(meta, op="after_%s/%s" % (pre, meta["op"])))
        refs = [B.opnd(o) for o in opnds]
        rz = B.opnd(("S", 3))
        rg = B.opnd(("SB", 1 if pre == "g1" else 0))
        body = [{"op": "bin", "name": "mul", "a": rz, "b": rz}]
        if pre in ("g0", "g1"):
            B.add({"op": "guarded", "cond": rg, "body": body})
        elif pre == "ite0":
            n = B.nreg
            B.add({"op": "ite", "cond": rg, "t": {"body": body, "ret": {"r": n}}, "f": rz})
        else:
            B.add({"op": "try", "body": [{"op": "guarded", "cond": rg, "body": [{"op": "raise"}]}]})
        st = mk(refs)
        st["tag"] = "main"
        B.add(st)
        nafter[0] += 1
        progs.append(dict(B.build(), fresh=(nafter[0] % 3 == 0)))     # every third one in an interpreter of its own
    nafter = [0]
    for pre in ("g0", "g1", "ite0", "exc0"):
        for nm in gen.ASSERT1 + ["to_bits", "check_positive", "check_zero"]:
            for x in core:
                after("b%d/after/%s/%s/%d" % (b, pre, nm, x), pre, {"op": nm, "kinds": "S"}, [("S", x)], lambda r, nm=nm: {"op": "meth", "name": nm, "a": r[0]})
        for nm in gen.ASSERT2:
            for (x, y) in pairs(small):
                after("b%d/after/%s/%s/%d,%d" % (b, pre, nm, x, y), pre, {"op": nm, "kinds": "SS"}, [("S", x), ("S", y)],
                      lambda r, nm=nm: {"op": "meth", "name": nm, "a": r[0], "args": [r[1]]})
        for op in ("truediv", "floordiv", "lt", "rshift", "and"):
            for (x, y) in pairs(small):
                for kb in ("S", "c"):
                    after("b%d/after/%s/%s/S%s/%d,%d" % (b, pre, op, kb, x, y), pre, {"op": op, "kinds": "S" + kb}, [("S", x), (kb, y)],
                          lambda r, op=op: {"op": "bin", "name": op, "a": r[0], "b": r[1]})
    # random compositions
    rg = gen.RandGen(seed * 1000003 + b, b)
    nrand = 300 if tier == "quick" else 4000
    modes = ["plain", "plain", "g1", "g0", "ign", "g10", "g01"]
    for i in range(nrand):
        progs.append(rg.program("b%d/rand/%d" % (b, i), rg.rnd.randint(2, 6 if tier == "quick" else 10), modes[i % len(modes)], fxp=(i % 3 == 0)))
    return progs
