"""Conformance of the code with the mechanism spec Tracer.tla (used by C01/C04): TLC model checks Tracer.tla (Sat, value==wire,
booleans 0/1 on the model) and prints every behaviour; each is replayed into the real code and compared by TLC (TracerConf.tla)."""
import json
import os

from harness import common, tlc


BLV = 2      # the bitlength the conformance runs use


def gen(run, P, BL, maxw, maxlen, vals, wide=False):
    with common.scratch("trc_") as d:
        cf = os.path.join(d, "gen.cfg")
        open(cf, "w").write("SPECIFICATION Spec\nCONSTANT P = %d\nCONSTANT BL = %d\nCONSTANT MaxW = %d\nCONSTANT MaxLen = %d\nCONSTANT Vals <- %s\nCONSTANT Wide = %s\nCONSTANT RES = 1\n"
                            "INVARIANT Inv_Sat\nINVARIANT Inv_ValLC\nINVARIANT Inv_Bool\nINVARIANT EmitBeh\nCHECK_DEADLOCK FALSE\n" % (P, BL, maxw, maxlen, vals, "TRUE" if wide else "FALSE"))
        res = tlc.run("Tracer", cfg=cf, workers=12, heap="6g")
    run.add_tlc(res, "Tracer.tla: Sat / value==wire / booleans on the mechanism model, MaxLen=%d%s" % (maxlen, ", full operator set" if wide else ""))
    if res.violated:
        run.violation({"stage": "design", "invariant": res.violated, "tlc_state": res.state,
                       "summary": "Tracer.tla (mechanism transcription of the gadgets) violates %s: %s" % (res.violated, res.state.get("hist"))})
        return []
    return [json.loads(json.loads(r)) for r in sorted(set(res.tagged("BEH")))]


def to_program(pid, beh):
    """history -> driver program.  Returns (program, list of registers holding the model's objects in order)."""
    top, stack = [], None
    steps = top
    reg = 0
    objreg = []
    guard_reg = None
    for h in beh["hist"]:
        a = h["a"]
        cur = stack if stack is not None else top
        if a == "priv":
            cur.append({"op": "new", "kind": "priv", "ty": "int", "v": h["v"]}); objreg.append(reg); reg += 1
        elif a == "privfxp":
            cur.append({"op": "new", "kind": "priv", "ty": "fxp", "v": {"f": [h["v"], 2]}}); objreg.append(reg); reg += 1      # resolution 1: v / 2 has the representation v
        elif a in ("fadd", "fsub", "fmul", "ftruediv", "ffloordiv", "flt"):
            cur.append({"op": "bin", "name": a[1:], "a": {"r": objreg[h["i"] - 1]}, "b": {"r": objreg[h["j"] - 1]}}); objreg.append(reg); reg += 1
        elif a in ("faddc", "fmulc"):
            cur.append({"op": "bin", "name": a[1:4], "a": {"r": objreg[h["i"] - 1]}, "b": {"c": h["v"]}}); objreg.append(reg); reg += 1
        elif a == "privbool":
            cur.append({"op": "new", "kind": "priv", "ty": "bool", "v": h["v"]}); objreg.append(reg); reg += 1
        elif a == "truediv":
            cur.append({"op": "bin", "name": "truediv", "a": {"r": objreg[h["i"] - 1]}, "b": {"r": objreg[h["j"] - 1]}}); objreg.append(reg); reg += 1
        elif a == "truedivc":
            cur.append({"op": "bin", "name": "truediv", "a": {"r": objreg[h["i"] - 1]}, "b": {"c": h["v"]}}); objreg.append(reg); reg += 1
        elif a == "divmod":
            cur.append({"op": "bin", "name": "divmod", "a": {"r": objreg[h["i"] - 1]}, "b": {"r": objreg[h["j"] - 1]}}); reg += 1
            cur.append({"op": "item", "a": {"r": reg - 1}, "i": 0}); objreg.append(reg); reg += 1
            cur.append({"op": "item", "a": {"r": reg - 2}, "i": 1}); objreg.append(reg); reg += 1
        elif a == "ite":
            cur.append({"op": "ite", "cond": {"r": objreg[h["v"] - 1]}, "t": {"r": objreg[h["i"] - 1]}, "f": {"r": objreg[h["j"] - 1]}})
            if h["i"] != h["j"]:
                objreg.append(reg)
            reg += 1
        elif a == "assert_nonzero":
            cur.append({"op": "meth", "name": "assert_nonzero", "a": {"r": objreg[h["i"] - 1]}}); reg += 1
        elif a in ("add", "sub", "mul", "lt", "le", "gt", "ge", "eq", "ne", "floordiv", "mod", "and", "or", "xor"):
            cur.append({"op": "bin", "name": a, "a": {"r": objreg[h["i"] - 1]}, "b": {"r": objreg[h["j"] - 1]}}); objreg.append(reg); reg += 1
        elif a in ("addc", "mulc"):
            cur.append({"op": "bin", "name": a[:3], "a": {"r": objreg[h["i"] - 1]}, "b": {"c": h["v"]}}); objreg.append(reg); reg += 1
        elif a in ("andc", "orc", "xorc"):
            cur.append({"op": "bin", "name": a[:-1], "a": {"r": objreg[h["i"] - 1]}, "b": {"c": h["v"]}}); objreg.append(reg); reg += 1
        elif a in ("pows", "lshifts", "rshifts"):
            cur.append({"op": "bin", "name": {"pows": "pow", "lshifts": "lshift", "rshifts": "rshift"}[a], "a": {"r": objreg[h["i"] - 1]}, "b": {"r": objreg[h["j"] - 1]}}); objreg.append(reg); reg += 1
        elif a in ("lshiftc", "rshiftc", "powc"):
            cur.append({"op": "bin", "name": {"lshiftc": "lshift", "rshiftc": "rshift", "powc": "pow"}[a], "a": {"r": objreg[h["i"] - 1]}, "b": {"c": h["v"]}})
            if not (a == "rshiftc" and h["v"] >= BLV):      # x >> c with c >= bitlength is the plain integer 0, not an object
                objreg.append(reg)
            reg += 1
        elif a in ("neg", "abs", "invert"):
            cur.append({"op": "un", "name": a, "a": {"r": objreg[h["i"] - 1]}}); objreg.append(reg); reg += 1
        elif a.startswith("assert_") and a not in ("assert_zero", "assert_nonzero"):
            cur.append({"op": "meth", "name": a, "a": {"r": objreg[h["i"] - 1]}, "args": [{"r": objreg[h["j"] - 1]}]}); reg += 1
        elif a in ("check_zero", "check_positive"):
            cur.append({"op": "meth", "name": a, "a": {"r": objreg[h["i"] - 1]}}); objreg.append(reg); reg += 1
        elif a in ("assert_zero", "to_bits"):
            cur.append({"op": "meth", "name": a, "a": {"r": objreg[h["i"] - 1]}}); reg += 1
        elif a == "ignore":
            cur.append({"op": "ignore", "v": True}); reg += 1
        elif a == "enter":
            stack = []
            top.append({"op": "guarded", "cond": {"r": objreg[h["i"] - 1]}, "body": stack})
        elif a == "leave":
            stack = None
            reg += 1
    return {"id": pid, "ign": False, "steps": top, "meta": {"objreg": objreg}}


def impl_of(tr, P, maxw):
    priv, cons = [], []
    raised = False
    for e in tr["events"]:
        priv += [x["m"] for x in e["npriv"]]
        for con in e["ncons"]:
            dense = []
            for lc in con:
                f = [0] * (maxw + 1)
                for w, c in lc:
                    if w <= 0 and -w <= maxw:
                        f[-w] = c
                dense.append(f)
            cons.append(dense)
        if e["out"] == "raise" and e["op"] != "end":
            raised = True
    vals, kinds = [], []
    regs = {}
    for e in tr["events"]:
        if e.get("reg", -1) >= 0 and e["out"] == "ok" and len(e["res"]) == 1:
            regs[e["reg"]] = e["res"][0]
    for r in tr["meta"]["objreg"]:
        if r in regs:
            vals.append(regs[r]["v"])
            kinds.append(regs[r]["k"])
    return {"wit": priv, "cons": cons, "vals": vals, "kinds": kinds, "raised": raised}


def run_conformance(run, tier):
    P, BL, maxw = 67, BLV, 44
    behs = gen(run, P, BL, maxw, 3 if tier == "quick" else 4, "ValsQuick" if tier == "quick" else "ValsThorough")
    if run.violations or not behs:
        return
    if len(behs) > 40000:
        behs = behs[::len(behs) // 40000 + 1]
    # the full operator set (comparisons, equality, abs, shifts, bitwise, powers, floor division, binary assertions): one call shorter
    wide = gen(run, P, BL, maxw, 3, "ValsQuick" if tier == "quick" else "ValsThorough", wide=True)
    if run.violations:
        return
    seen = set(json.dumps(b["hist"]) for b in behs)
    wide = [b for b in wide if json.dumps(b["hist"]) not in seen]
    if len(wide) > 40000:
        wide = wide[::len(wide) // 40000 + 1]
    behs = behs + wide
    progs = [to_program("trc/%d" % i, b) for i, b in enumerate(behs)]
    traces = common.run_programs({"P": P, "bitlength": BL, "resolution": 1}, progs)
    pairs = []
    for b, t in zip(behs, traces):
        m = dict(b)
        m["cons"] = [[[c[str(w)] if isinstance(c, dict) else c[w] for w in range(maxw + 1)] for c in con] for con in b["cons"]]
        pairs.append({"id": t["id"], "model": m, "impl": impl_of(t, P, maxw)})
    run.evaluations += len(pairs)
    run.notes.append("mechanism conformance: %d behaviours of Tracer.tla replayed" % len(pairs))
    from concurrent.futures import ThreadPoolExecutor
    chunks = [pairs[i:i + 1500] for i in range(0, len(pairs), 1500)]
    with ThreadPoolExecutor(6) as ex:
        results = list(ex.map(lambda ch: common._tlc_on_chunk("TracerConf", "TracerConf.cfg", {"pairs": ch}, 2, False, False, "3g"), chunks))
    drift = 0
    for ci, (ch, res) in enumerate(zip(chunks, results)):
        run.states += res.distinct
        run.transitions += res.generated
        if res.error:
            raise common.MachineryError("TracerConf failed: %s\n%s" % (res.error, res.stdout[-1500:]))
        if res.violated:
            drift += 1
            pr = ch[int(res.state["tid"]) - 1]
            print("MODEL-DRIFT: %s -- behaviour %s of Tracer.tla: model raised=%s wit=%s ; code raised=%s wit=%s (history %s)" % (
                res.violated, pr["id"], pr["model"]["raised"], pr["model"]["wit"], pr["impl"]["raised"], pr["impl"]["wit"], json.dumps(pr["model"]["hist"])[:300]))
    run.extra["tracer_model_drift_chunks"] = drift
    run.traces += len(pairs)
