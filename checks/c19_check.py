"""C19: the backend in use is the one the configuration names (Select.tla enumerates configurations, one interpreter each)."""
import json
import os
import subprocess
from concurrent.futures import ThreadPoolExecutor

from harness import common, tlc

RULE = ("every configuration enumerated by TLC from Select.tla: pre-imported backend modules (none / each of the 8 singly; ordered pairs in the "
        "thorough tier) x PYSNARK_BACKEND (8 known names, unset, unknown) x presence of the three optional dependencies (8 subsets); one fresh "
        "interpreter each; distinct = configurations")

PROBE = r'''
import sys, os, json, io, contextlib
pre = json.loads(sys.argv[1])
mods = {"libsnark":"pysnark.libsnark.backend","libsnarkgg":"pysnark.libsnark.backendgg","qaptools":"pysnark.qaptools.backend","snarkjs":"pysnark.snarkjsbackend",
        "zkinterface":"pysnark.zkinterface.backend","zkifbellman":"pysnark.zkinterface.backendbellman","zkifbulletproofs":"pysnark.zkinterface.backendbulletproofs","nobackend":"pysnark.nobackend"}
import importlib
for n in pre:
    try:
        importlib.import_module(mods[n])
    except Exception:
        pass
out = io.StringIO()
obs = {"raised": False, "exc": "", "name": "", "mod": "", "field": "", "attrs": [], "sink": "", "unknownmsg": False, "loaderr": 0, "groth": False, "afield": ""}
try:
    with contextlib.redirect_stdout(out):
        import pysnark.runtime as rt
except BaseException as e:
    obs["raised"], obs["exc"] = True, type(e).__name__
else:
    rt.autoprove = False
    be = rt.backend
    obs["name"], obs["mod"] = rt.backend_name or "", getattr(be, "__name__", "")
    obs["field"] = str(be.get_modulus()) if hasattr(be, "get_modulus") else ""
    obs["attrs"] = [a for a in ("privval","pubval","zero","one","fieldinverse","get_modulus","add_constraint","prove","process_snark") if hasattr(be, a)]
    obs["groth"] = bool(getattr(sys.modules.get("pysnark.libsnark.backend"), "use_groth", False))
    # where do constraints go?
    def count(m):
        mod = sys.modules.get(m)
        if mod is None: return None
        if hasattr(mod, "constraints"): return len(mod.constraints)
        if hasattr(mod, "pb"): return len(mod.pb.constraints)
        return None
    cands = ["pysnark.snarkjsbackend", "pysnark.zkinterface.backend", "pysnark.libsnark.backend"]
    before = {m: count(m) for m in cands}
    with contextlib.redirect_stdout(out), contextlib.redirect_stderr(out):
        try:
            x = rt.PrivVal(2) * rt.PrivVal(3)
        except Exception as e:
            obs["exc"] = "use:" + type(e).__name__
    after = {m: count(m) for m in cands}
    grown = [m for m in cands if before[m] is not None and after[m] != before[m]]
    if grown: obs["sink"] = grown[0]
    elif obs["name"] == "qaptools": obs["sink"] = "pysnark.qaptools.backend" if os.path.exists("pysnark_eqs") else ""
    elif obs["name"] == "nobackend": obs["sink"] = "pysnark.nobackend"
    # the field the ARTEFACTS declare (file-writing backends): prove a one-constraint circuit in the scratch cwd and decode the header
    obs["afield"] = ""
    if obs["name"] in ("snarkjs", "zkinterface", "zkifbellman", "zkifbulletproofs") and not obs["exc"]:
        try:
            with contextlib.redirect_stdout(out), contextlib.redirect_stderr(out):
                be.prove()
            if obs["name"] == "snarkjs":
                from harness.decoders import iden3
                pr = iden3.read_r1cs("circuit.r1cs")["header"]["prime"]
                obs["afield"] = str(sum(v << (8 * i) for i, v in enumerate(pr)))
            else:
                from harness.decoders import zkif
                fms = []
                for f in ("circuit.zkif", "computation.zkif"):
                    for m in zkif.read_file(f)["messages"]:
                        if m["type"] == "CircuitHeader":
                            fms.append(int.from_bytes(m["field_maximum"], "little") + 1)
                obs["afield"] = str(fms[0]) if fms and all(x == fms[0] for x in fms) else "inconsistent:" + ",".join(map(str, fms)) + ("none" if not fms else "")
        except Exception as e:
            obs["afield"] = "error:" + type(e).__name__
txt = out.getvalue()
obs["unknownmsg"] = "unknown backend in environment variables" in txt
obs["loaderr"] = txt.count("*** Error loading backend")
print("OBS " + json.dumps(obs))
'''


def run_one(args):
    cfg, d, k = args
    wd = os.path.join(d, "c%d" % k)
    os.makedirs(wd)
    sp = os.path.join(wd, "probe.py")
    open(sp, "w").write(PROBE)
    paths = [common.REPO, common.ROOT]           # ROOT last: only for the artefact decoders, imported after the selection
    if "flatbuffers" in cfg["loadable"]:
        paths.insert(0, os.path.join(common.ROOT, "shims"))
    if "libsnark" in cfg["loadable"]:
        paths.insert(0, os.path.join(common.ROOT, "shims", "libsnark"))
    env = common.child_env({"PYTHONPATH": os.pathsep.join(paths)})
    env.pop("QAPTOOLS_BIN", None)
    if "qaptools" in cfg["loadable"]:
        env["QAPTOOLS_BIN"] = os.path.join(common.ROOT, "shims", "qaptools-bin")
    else:
        env["QAPTOOLS_BIN"] = os.path.join(wd, "no-such-dir")
    if cfg["env"] != "unset":
        env["PYSNARK_BACKEND"] = cfg["env"]
    try:
        p = subprocess.run([common.PY, sp, json.dumps(cfg["pre"])], cwd=wd, env=env, stdout=subprocess.PIPE, stderr=subprocess.PIPE, timeout=120, stdin=subprocess.DEVNULL)
    except subprocess.TimeoutExpired:
        raise common.MachineryError("probe timed out for %s" % cfg)
    obs = None
    for ln in p.stdout.decode("utf8", "replace").splitlines():
        if ln.startswith("OBS "):
            obs = json.loads(ln[4:])
    if obs is None:
        raise common.MachineryError("probe produced no observation for %s: %s" % (cfg, p.stderr.decode("utf8", "replace")[-800:]))
    return {"pre": cfg["pre"], "env": cfg["env"], "loadable": sorted(cfg["loadable"]), "obs": obs, "pred": cfg["pred"]}


def gen_configs(run, maxpre):
    with common.scratch("gen_") as d:
        cf = os.path.join(d, "gen.cfg")
        open(cf, "w").write("SPECIFICATION Spec\nCONSTANT MaxPre = %d\nINVARIANT Inv_ContractOnModel\nINVARIANT Emit\nCHECK_DEADLOCK FALSE\n" % maxpre)
        res = tlc.run("Select", cfg=cf, workers=8)
    run.add_tlc(res, "Select.tla: contract on the mechanism (modulo shadowing) + configuration generator, MaxPre=%d" % maxpre)
    if res.violated:
        run.violation({"stage": "design", "invariant": res.violated, "tlc_state": res.state, "summary": "Select.tla: the transcribed mechanism violates the contract outside the known shadowing case"})
    return [json.loads(json.loads(r)) for r in sorted(set(res.tagged("BEH")))]


def main(tier):
    run = common.Run("C19", tier)
    cfgs = gen_configs(run, 1 if tier == "quick" else 2)
    if tier == "quick":
        # singles x env x {all deps, none, flatbuffers only, libsnark only}
        keep = [set(), {"flatbuffers", "libsnark", "qaptools"}, {"flatbuffers"}, {"libsnark"}, {"qaptools", "flatbuffers"}]
        cfgs = [c for c in cfgs if set(c["loadable"]) in keep]
    with common.scratch("sel_") as d:
        with ThreadPoolExecutor(common.NPROC) as ex:
            obs = list(ex.map(run_one, [(c, d, k) for k, c in enumerate(cfgs)]))
    for o in obs:
        run.nontrivial.add(json.dumps([o["pre"], o["env"], o["loadable"]]))
    run.evaluations += len(obs)
    run.traces += len(obs)
    run.exhaustive = True
    run.samples = [obs[0], obs[len(obs) // 3]]
    active = common.active_ids("C19")
    chunks = [obs[i:i + 1500] for i in range(0, len(obs), 1500)]
    for ci, ch in enumerate(chunks):
        r1 = common._tlc_on_chunk("TraceSelect", "TraceSelect.cfg", {"obs": ch, "active": active}, 8, False, False, "3g")
        run.add_tlc(r1, "observed outcomes vs contract #%d" % ci)
        if r1.violated:
            o = ch[int(r1.state["tid"]) - 1]
            run.violation({"stage": "select", "invariant": r1.violated, "tlc_state": r1.state, "observation": o,
                           "summary": "%s: pre-imported %s, PYSNARK_BACKEND=%s, dependencies present %s -> %s" % (r1.violated, o["pre"], o["env"], o["loadable"], o["obs"])})
            break
    if not run.violations:
        r2 = common._tlc_on_chunk("TraceSelect", "TraceSelectDrift.cfg", {"obs": obs[:3000], "active": active}, 8, False, False, "3g")
        run.states += r2.distinct
        run.extra["model_drift"] = bool(r2.violated)
        if r2.violated:
            o = obs[int(r2.state["tid"]) - 1]
            print("MODEL-DRIFT: observed outcome differs from Select.tla's prediction (not a C19 violation): %s" % json.dumps(o)[:600])
    return run.finish(RULE, assumptions=["the IPython branch of the selection is not exercised (no IPython in the sandbox)",
                                         "libsnark and flatbuffers are import-only stand-ins, qaptools executables are stubs: only selection is judged"],
                      trusted=["TLC 1.8", "probe script (observer)", "shims"])


def replay(rec):
    o = rec["observation"]
    with common.scratch("sel_") as d:
        ob = run_one(({"pre": o["pre"], "env": o["env"], "loadable": o["loadable"], "pred": o.get("pred", {})}, d, 0))
    run = common.Run("C19", "quick")
    r1 = common._tlc_on_chunk("TraceSelect", "TraceSelect.cfg", {"obs": [ob], "active": common.active_ids("C19")}, 2, False, False, "2g")
    run.add_tlc(r1, "replay")
    print("replay: %s" % ("violation reproduced (%s)" % r1.violated if r1.violated else "no violation on the current tree"))
    return 1 if r1.violated else 0
