from checks import c01

RULE = ("every operator/assertion/conversion/selection/array access x operand kinds x operand values in the window "
        "-2^b-1..2^b+1 x guard/ignore modes, plus seeded random compositions, run on the real code over a small prime; "
        "distinct = (prime, operation, operand kinds, mode) classes; an event is one public API call")


def main(tier):
    run = c01.run_core("C04", tier, "TraceCore_C04.cfg", RULE)
    return run.finish(RULE, assumptions=["constraints are judged modulo the recording backend's small prime; the library is field-parametric",
                                         "the recording backend's witness lists are append-only"],
                      trusted=["TLC 1.8", "harness/recorder.py (observer)", "harness/driver.py (observer)"])


replay = c01.replay
