"""C06: the constraint system does not depend on the values processed (self-composition, TraceShape.tla)."""
import json

from harness import common, gen, views
from checks import coreprogs

RULE = ("programs are grouped by their text with public/private input values (and the ignore_errors switch) abstracted; every run of a "
        "group is zipped call-by-call against the group's reference run and TLC compares variable kinds/order, constraints with "
        "coefficients and result wire expressions; groups vary operand values over the window, guard values 0/1, secret conditions, "
        "secret indices/exponents/shift counts and valid/invalid inputs under ignore_errors; distinct = groups with >= 2 completing runs")


def key_of(prog):
    def norm(st):
        st = dict(st)
        if st.get("op") == "new" and st.get("kind") in ("priv", "pub"):
            st["v"] = "?"
        for f in ("body",):
            if f in st:
                st[f] = [norm(x) for x in st[f]]
        for f in ("t", "f"):
            if isinstance(st.get(f), dict) and "body" in st[f]:
                st[f] = dict(st[f], body=[norm(x) for x in st[f]["body"]])
        st.pop("tag", None)
        return st
    return json.dumps([norm(s) for s in prog["steps"]], sort_keys=True)


def extra_programs(b):
    progs = []
    lim = 1 << (b - 1)
    # secret exponent / shift count / index / condition families, every value of the secret
    for op in ("pow", "lshift", "rshift"):
        for a in (-1, 0, 1, 2):
            for e in range(-1, (1 << b) + 1):
                for mode in ("plain", "ign"):
                    B = gen.Builder("x%d/%s/%d,%d/%s" % (b, op, a, e, mode), mode, None, {"op": op})
                    ra, re_ = B.opnd(("S", a)), B.opnd(("S", e))
                    B.add({"op": "bin", "name": op, "a": ra, "b": re_})
                    progs.append(B.build())
    for n in (2, 3, 4):
        for idx in range(-1, n + 1):
            for mode in ("plain", "ign"):
                for what in ("get", "set"):
                    B = gen.Builder("x%d/arr%s/%d/%d/%s" % (b, what, n, idx, mode), mode, None, {"op": "array_" + what})
                    items = [B.opnd(("S", (k * 3 + idx) % 4 - 1)) if k % 2 == 0 else {"c": k + 1} for k in range(n)]
                    ri = B.opnd(("S", idx))
                    rv = B.opnd(("S", idx))
                    base = B.nreg
                    B.add({"op": "call", "fn": "Array", "args": [{"l": items}]})
                    if what == "get":
                        B.add({"op": "getitem", "a": {"r": base}, "i": ri})
                    else:
                        B.add({"op": "setitem", "a": {"r": base}, "i": ri, "v": rv})
                        B.add({"op": "getitem", "a": {"r": base}, "i": {"c": 0}})
                    progs.append(B.build())
    # lazily evaluated selection: both branches run, under complementary guards
    for c in (0, 1):
        for (x, y) in ((0, 0), (1, 2), (-2, 1), (3, 0), (2, 2)):
            B = gen.Builder("x%d/itelazy/%d/%d,%d" % (b, c, x, y), "plain", None, {"op": "ite_lazy"})
            rc = B.opnd(("SB", c))
            rx, ry = B.opnd(("S", x)), B.opnd(("S", y))
            B.add({"op": "ite", "cond": rc,
                   "t": {"body": [{"op": "bin", "name": "truediv", "a": rx, "b": ry}, {"op": "bin", "name": "lt", "a": rx, "b": ry}], "ret": {"r": 3}},
                   "f": {"body": [{"op": "bin", "name": "floordiv", "a": rx, "b": ry}, {"op": "meth", "name": "assert_zero", "a": rx}], "ret": {"r": 5}}})
            progs.append(B.build())
    return progs


def main(tier):
    run = common.Run("C06", tier)
    cfgs = [{"P": 67, "bitlength": 2, "resolution": 1}] if tier == "quick" else \
        [{"P": 67, "bitlength": 2, "resolution": 1}, {"P": 257, "bitlength": 3, "resolution": 2}, {"P": 1031, "bitlength": 4, "resolution": 1}]
    for cfg in cfgs:
        b = cfg["bitlength"]
        progs = coreprogs.families("quick" if (tier == "quick" or b > 3) else "thorough", common.seed(), b)
        progs = [p for p in progs if "/rand/" not in p["id"]] + extra_programs(b)
        # random programs: each with several input vectors (same seed => same text, different inputs)
        import random
        rnd = random.Random(common.seed() * 31 + b)
        nr = 150 if tier == "quick" else 1500
        for i in range(nr):
            rg = gen.RandGen(common.seed() * 1000 + i, b)
            base = rg.program("r%d/%d/0" % (b, i), 5, ["plain", "g1", "ign"][i % 3], fxp=(i % 4 == 0))
            progs.append(base)
            lim = max(1, (1 << (b - 1)) - 1)
            for j in range(1, 4):
                p2 = json.loads(json.dumps(base))
                p2["id"] = "r%d/%d/%d" % (b, i, j)
                for st in p2["steps"]:
                    if st["op"] == "new" and st["kind"] in ("priv", "pub"):
                        if st["ty"] == "bool" or (st["ty"] == "int" and st is p2["steps"][-1] and False):
                            st["v"] = rnd.randint(0, 1)
                        elif st["ty"] == "int":
                            # keep guard conditions (created right before a guarded step) boolean
                            st["v"] = rnd.randint(-lim, lim)
                        elif st["ty"] == "fxp":
                            st["v"] = {"f": [rnd.randint(-2 * lim, 2 * lim), 2]}
                # guard condition registers must stay 0/1: they are the int secrets referenced as cond
                conds = set()

                def scan(steps):
                    for s in steps:
                        if s["op"] == "guarded":
                            conds.add(s["cond"]["r"])
                            scan(s["body"])
                scan(p2["steps"])
                for r in conds:
                    p2["steps"][r]["v"] = rnd.randint(0, 1)
                if j == 3:
                    p2["ign"] = True
                progs.append(p2)
        if b <= 3:
            from checks import c09_check
            for ti, (name, prog) in enumerate(c09_check.templates(tier)):
                for k, inp in enumerate(c09_check.inputs_for("%s.%d" % (name, ti), tier)):
                    if k % 2 and tier == "quick":
                        continue
                    spec = {n: {"v": v, "ty": "int"} for n, v in inp.items()}
                    if name.startswith("arr"):
                        spec["a"] = {"v": [1, 2, 3], "ty": "array"}
                    if name.startswith("mat"):
                        spec["m"] = {"v": [[1, 2], [3, 4]], "ty": "matrix"}
                    progs.append({"id": "cf%d/%s.%d/%d" % (b, name, ti, k), "ign": False, "meta": {"op": "cf_" + name, "cfkey": "%s.%d" % (name, ti)},
                                  "steps": [{"op": "cf", "prog": prog, "inputs": spec}]})
        traces = common.run_programs(cfg, progs)
        groups = {}
        for p, t in zip(progs, traces):
            groups.setdefault(p["meta"]["cfkey"] if "cfkey" in p.get("meta", {}) else key_of(p), []).append(t)
        gl = []
        for kk, ts in groups.items():
            if len(ts) < 2:
                continue
            complete = [t for t in ts if all(e["out"] == "ok" for e in t["events"])]
            if not complete:
                continue
            ref = complete[0]
            others = [t for t in ts if t is not ref]
            gl.append({"ref": views.shape(ref), "others": [views.shape(t) for t in others]})
            run.traces += len(ts)
            run.evaluations += len(others)
            if len(complete) >= 2:
                run.nontrivial.add((cfg["P"], kk))
        if not run.samples:
            run.samples = [{"group_reference": gl[0]["ref"]["id"], "others": [o["id"] for o in gl[0]["others"]][:5]}]
        run.notes.append("P=%d b=%d: %d groups, %d runs" % (cfg["P"], b, len(gl), sum(1 + len(g["others"]) for g in gl)))
        # hand the groups to TLC in chunks
        from concurrent.futures import ThreadPoolExecutor
        chunks = [gl[i:i + 400] for i in range(0, len(gl), 400)]
        with ThreadPoolExecutor(8) as ex:
            results = list(ex.map(lambda ch: common._tlc_on_chunk("TraceShape", "TraceShape.cfg", {"groups": ch}, 2, False, False, "3g"), chunks))
        for ci, (ch, res) in enumerate(zip(chunks, results)):
            run.add_tlc(res, "P=%d#%d" % (cfg["P"], ci))
            if res.violated:
                g = ch[int(res.state["gid"]) - 1]
                o = g["others"][int(res.state["k"]) - 1]
                l = int(res.state["l"])
                pa = next(p for p in progs if p["id"] == g["ref"]["id"])
                pb = next(p for p in progs if p["id"] == o["id"])
                run.violation({"stage": "P=%d" % cfg["P"], "invariant": res.violated, "tlc_state": res.state, "cfg": cfg,
                               "program_a": pa, "program_b": pb,
                               "event_a": g["ref"]["events"][l - 1] if l else None, "event_b": o["events"][l - 1] if l else None,
                               "summary": "%s: runs %s and %s of the same program differ at call %d" % (res.violated, g["ref"]["id"], o["id"], l)})
        if run.violations:
            break
    return run.finish(RULE, assumptions=["programs differ only in the values of public/private inputs and the ignore_errors switch"],
                      trusted=["TLC 1.8", "harness observers"])


def replay(rec):
    run = common.Run("C06", "quick")
    traces = common.run_programs(rec["cfg"], [rec["program_a"], rec["program_b"]])
    data = {"groups": [{"ref": views.shape(traces[0]), "others": [views.shape(traces[1])]}]}
    res = common._tlc_on_chunk("TraceShape", "TraceShape.cfg", data, 2, False, False, "2g")
    run.add_tlc(res, "replay")
    print("replay: %s" % ("violation reproduced (%s)" % res.violated if res.violated else "no violation on the current tree"))
    return 1 if res.violated else 0
