"""C07: a false guard makes code inert; a true guard is transparent (TraceGuarded.tla on zipped U/G1/G0 runs,
TraceCore Inv_Sat on the false-guard runs, Soundness on lazily evaluated selections and on assertions under a true guard)."""
import json

from harness import common, gen, views, instances
from checks import c03_check

RULE = ("bodies (every operator, assertion, conversion, selection; single calls over the value window incl. values invalid for the body, "
        "and seeded 2-4 call bodies) are run unguarded, under a true guard and under a false guard (guard conditions typed as secret "
        "integer, secret boolean and comparison result; nesting depth 2), the three traces zipped; distinct = (body class, operand kinds, guard style)")


def pairs(v):
    return [(a, b) for a in v for b in v]


def bodies(tier, b, seed):
    """Returns list of (key, builder_fn) where builder_fn(mode, style) -> program."""
    out = []
    lim = 1 << (b - 1)
    win = gen.window(b, 1)
    vals = sorted(set([-lim - 1, -lim, -1, 0, 1, 2, lim - 1, lim, lim + 1]))
    if tier != "quick":
        vals = win

    def single(key, meta, opnds, stepfn):
        def mk(mode, style):
            B = gen.Builder("%s/%s/%s" % (key, mode, style), mode, None, dict(meta))
            refs = [B.opnd(o) for o in opnds]
            B.add(stepfn(refs))
            return B.build(style)
        out.append((key, mk))
    for op in gen.BIN_ARITH + gen.BIN_CMP:
        for (ka, kb) in gen.kinds3():
            for (x, y) in pairs(vals):
                single("b%d/%s/%s%s/%d,%d" % (b, op, ka, kb, x, y), {"op": op, "kinds": ka + kb}, [(ka, x), (kb, y)],
                       lambda r, op=op: {"op": "bin", "name": op, "a": r[0], "b": r[1]})
    for op in gen.UN:
        for x in win:
            single("b%d/%s/S/%d" % (b, op, x), {"op": op, "kinds": "S"}, [("S", x)], lambda r, op=op: {"op": "un", "name": op, "a": r[0]})
    for nm in gen.CHECK1 + gen.ASSERT1 + ["to_bits", "val"]:
        for x in win:
            single("b%d/%s/S/%d" % (b, nm, x), {"op": nm, "kinds": "S"}, [("S", x)], lambda r, nm=nm: {"op": "meth", "name": nm, "a": r[0]})
    for nm in gen.ASSERT2:
        for (x, y) in pairs(vals):
            for kb in ("S", "c"):
                single("b%d/%s/S%s/%d,%d" % (b, nm, kb, x, y), {"op": nm, "kinds": "S" + kb}, [("S", x), (kb, y)],
                       lambda r, nm=nm: {"op": "meth", "name": nm, "a": r[0], "args": [r[1]]})
    for x in win:
        single("b%d/assert_range/%d" % (b, x), {"op": "assert_range", "kinds": "S"}, [("S", x)],
               lambda r: {"op": "meth", "name": "assert_range", "a": r[0], "args": [{"c": -1}, {"c": 2}]})
    for v in (-1, 0, 1, 2):
        for fn in ("LinCombBool", "ensurebool", "LinCombFxp"):
            single("b%d/%s/%d" % (b, fn, v), {"op": fn, "kinds": "S"}, [("S", v)], lambda r, fn=fn: {"op": "call", "fn": fn, "args": [r[0]]})
    for c in (0, 1):
        for (x, y) in pairs([-2, 0, 3]):
            single("b%d/ite/%d/%d,%d" % (b, c, x, y), {"op": "ite", "kinds": "SBSS"}, [("SB", c), ("S", x), ("S", y)],
                   lambda r: {"op": "ite", "cond": r[0], "t": r[1], "f": r[2]})
    for op in ["and", "or", "xor", "add", "mul", "eq", "lt"]:
        for (x, y) in pairs([0, 1]):
            single("b%d/bool/%s/%d,%d" % (b, op, x, y), {"op": "bool_" + op, "kinds": "SBSB"}, [("SB", x), ("SB", y)],
                   lambda r, op=op: {"op": "bin", "name": op, "a": r[0], "b": r[1]})
    fv = [[n, 2] for n in (-3, -1, 0, 2, 3)]
    for op in ["add", "mul", "truediv", "floordiv", "mod", "lt", "eq"]:
        for x in fv:
            for y in fv:
                single("b%d/fxp/%s/%d,%d" % (b, op, x[0], y[0]), {"op": "fxp_" + op, "kinds": "FF"}, [("F", x), ("F", y)],
                       lambda r, op=op: {"op": "bin", "name": op, "a": r[0], "b": r[1]})
    # arrays at a secret index, incl. out-of-range
    for n in (2, 3):
        for idx in range(-1, n + 1):
            def mk(mode, style, n=n, idx=idx):
                B = gen.Builder("b%d/arrget/%d/%d/%s/%s" % (b, n, idx, mode, style), mode, None, {"op": "array_get", "kinds": "S"})
                items = [B.opnd(("S", k + 1)) for k in range(n)]
                ri = B.opnd(("S", idx))
                base = gen.Builder.body_base(B.nreg, mode, style)
                B.add({"op": "call", "fn": "Array", "args": [{"l": items}]})
                B.add({"op": "getitem", "a": {"r": base}, "i": ri})
                return B.build(style)
            out.append(("b%d/arrget/%d/%d" % (b, n, idx), mk))
    # two-call chains: the result of a call that may be invalid for the values feeds a gadget in the same body
    cvals = [(-3, 2), (3, 2), (1, 0), (2, -2), (0, 3)] if tier == "quick" else [(a_, b_) for a_ in (-3, -1, 0, 1, 3) for b_ in (-2, 0, 2, 3)]
    for op1 in ("truediv", "floordiv", "mod", "mul", "sub"):
        for (k1, k2) in (("S", "c"), ("S", "S")):
            for op2 in ("mul", "eq", "lt", "check_zero", "assert_nonzero", "truediv"):
                for (x, y) in cvals:
                    def mk(mode, style, op1=op1, op2=op2, k1=k1, k2=k2, x=x, y=y):
                        B = gen.Builder("b%d/chain/%s-%s/%s%s/%d,%d/%s/%s" % (b, op1, op2, k1, k2, x, y, mode, style), mode, None,
                                        {"op": "chain_%s_%s" % (op1, op2), "kinds": k1 + k2})
                        rx, ry, rz = B.opnd((k1, x)), B.opnd((k2, y)), B.opnd(("S", 3))
                        base = gen.Builder.body_base(B.nreg, mode, style)
                        B.add({"op": "bin", "name": op1, "a": rx, "b": ry})
                        if op2 in ("mul", "eq", "lt", "truediv"):
                            B.add({"op": "bin", "name": op2, "a": {"r": base}, "b": rz})
                        else:
                            B.add({"op": "meth", "name": op2, "a": {"r": base}})
                        return B.build(style)
                    out.append(("b%d/chain/%s-%s/%s%s/%d,%d" % (b, op1, op2, k1, k2, x, y), mk))
    # seeded multi-call bodies
    nr = 120 if tier == "quick" else 1500
    for i in range(nr):
        def mk(mode, style, i=i):
            rg = gen.RandGen(seed * 7 + i, b)
            p = rg.program("b%d/rand/%d/%s/%s" % (b, i, mode, style), 2 + i % 3, mode, fxp=(i % 5 == 0))
            return p
        out.append(("b%d/rand/%d" % (b, i), mk))
    return out


def tail_programs(b):
    """the same call made first inside a region whose guard is 0 (on operands that may be invalid) and then AFTER the region on
    valid operands, against a run that never entered the region: a false guard must leave nothing behind."""
    calls = {
        "assert_lt": lambda r: {"op": "meth", "name": "assert_lt", "a": r, "args": [{"c": 3}]},
        "assert_gt": lambda r: {"op": "meth", "name": "assert_gt", "a": r, "args": [{"c": 3}]},
        "assert_eq": lambda r: {"op": "meth", "name": "assert_eq", "a": r, "args": [{"c": 1}]},
        "assert_range": lambda r: {"op": "meth", "name": "assert_range", "a": r, "args": [{"c": 0}, {"c": 3}]},
        "lt": lambda r: {"op": "bin", "name": "lt", "a": r, "b": {"c": 3}},
        "addc": lambda r: {"op": "bin", "name": "add", "a": r, "b": {"c": 3}},
        "truediv": lambda r: {"op": "bin", "name": "truediv", "a": r, "b": {"c": 3}},
        "pow": lambda r: {"op": "bin", "name": "pow", "a": r, "b": {"c": 0}},
        "to_bits": lambda r: {"op": "meth", "name": "to_bits", "a": r},
        "ensurelc": lambda r: {"op": "call", "fn": "ensurelc", "args": [{"c": 3}]},
        "unpack": lambda r: {"op": "unpack", "schema": ["intmod", 3], "a": {"l": [r, r]}},
    }
    out = []
    for nm, mk in calls.items():
        for (x, y) in ((5, 1), (-1, 2), (3, 0), (1, 1), (4, 3)):
            for style in ("lc", "bool"):
                for variant in ("T", "G", "E0", "E1"):
                    B = gen.Builder("tail/%s/%d,%d/%s/%s" % (nm, x, y, style, variant), "plain", None, {"op": "tail_" + nm, "kinds": "S", "variant": variant})
                    rx, ry = B.opnd(("S", x)), B.opnd(("S", y & 1 if nm == "unpack" else y))
                    if variant == "G":
                        rg = B.opnd(("SB" if style == "bool" else "S", 0))
                        B.add({"op": "guarded", "cond": rg, "body": [mk(rx)]})
                    elif variant in ("E0", "E1"):
                        # the region (guard 0 / 1) is left through an exception that the program catches
                        rg = B.opnd(("SB" if style == "bool" else "S", int(variant[1])))
                        B.add({"op": "try", "body": [{"op": "guarded", "cond": rg, "body": [{"op": "raise"}]}]})
                    t1 = mk(ry)
                    t1["tag"] = "tail"
                    B.add(t1)
                    t2 = {"op": "bin", "name": "mul", "a": ry, "b": {"c": 2}, "tag": "tail"}
                    B.add(t2)
                    out.append(B.build())
    return out


def tail_events(tr):
    return [{"op": e["op"], "name": e["name"], "out": e["out"], "exc": e["exc"],
             "args": [[{"k": x["k"], "v": x["v"], "w": x["w"]} for x in a] for a in e["args"]],
             "res": [{"k": x["k"], "v": x["v"], "w": x["w"], "m": x["m"]} for x in e["res"]]} for e in tr["events"] if e.get("tag") == "tail"]


def body_events(tr):
    m = tr["meta"]
    evs = tr["events"]
    ng = m.get("ng", 0)
    res = []
    started = 0
    for e in evs:
        if e["op"].endswith("_enter") or e["op"] in ("guarded", "end") or e.get("tag") == "cond":
            continue
        if e["depth"] != ng:
            continue
        if e["depth"] == 0 and started < m.get("npre", 0):
            started += 1
            continue
        if ng > 0 and e["op"] == "new" and e["depth"] == 0:
            continue
        res.append({"op": e["op"], "name": e["name"], "out": e["out"], "exc": e["exc"],
                    "args": [[{"k": x["k"], "v": x["v"], "w": x["w"]} for x in a] for a in e["args"]],
                    "res": [{"k": x["k"], "v": x["v"], "w": x["w"], "m": x["m"]} for x in e["res"]]})
    return res


def main(tier):
    run = common.Run("C07", tier)
    cfg = {"P": 257, "bitlength": 3, "resolution": 1} if tier != "quick" else {"P": 67, "bitlength": 2, "resolution": 1}
    b = cfg["bitlength"]
    bl = bodies(tier, b, common.seed())
    styles = ["lc", "bool", "cmp"]
    progs, index = [], []
    for key, mk in bl:
        if "/rand/" in key:
            variants = [("g1", "g0", "lc")]
        else:
            h = sum(map(ord, key))
            variants = [("g1", "g0", styles[h % 3])]
            if tier != "quick":
                variants = [("g1", "g0", s) for s in styles] + [("g11", "g10", "lc"), ("g11", "g01", "bool")]
            elif h % 7 == 0:
                variants.append(("g11", "g10", "lc"))
                variants.append(("g11", "g01", "bool"))
        pu = mk("plain", "lc")
        pu["id"] = key + "/U"
        progs.append(pu)
        for (m1, m0, st) in variants:
            p1, p0 = mk(m1, st), mk(m0, st)
            p1["id"], p0["id"] = "%s/%s/%s" % (key, m1, st), "%s/%s/%s" % (key, m0, st)
            progs += [p1, p0]
            index.append((key, pu["id"], p1["id"], p0["id"], st))
    traces = common.run_programs(cfg, progs)
    byid = {t["id"]: t for t in traces}
    pbyid = {p["id"]: p for p in progs}
    triples, g0traces = [], []
    for key, iu, i1, i0, st in index:
        tu, t1, t0 = byid[iu], byid[i1], byid[i0]
        triples.append({"id": key, "ids": [iu, i1, i0], "u": body_events(tu), "g1": body_events(t1), "g0": body_events(t0),
                        "bodylen": pbyid[iu]["meta"].get("nbody", len(body_events(tu))), "cut": True})
        g0traces.append(t0)
        m = tu["meta"]
        run.nontrivial.add((m.get("op", m.get("kind")), m.get("kinds"), st, pbyid[i1]["meta"]["mode"]))
    # tails: code after a false-guard region behaves as if the region had not been there
    tp = tail_programs(b)
    tt = {t["id"]: t for t in common.run_programs(cfg, tp, fresh=True)}
    for p in tp:
        if p["meta"]["variant"] == "T":
            continue
        tid_ = p["id"][:p["id"].rindex("/")]
        triples.append({"id": p["id"], "ids": [tid_ + "/T", p["id"], p["id"]], "u": tail_events(tt[tid_ + "/T"]), "g1": tail_events(tt[p["id"]]), "g0": [], "bodylen": 0, "cut": False})
        pbyid[tid_ + "/T"] = next(q for q in tp if q["id"] == tid_ + "/T")
        pbyid[p["id"]] = p
        run.nontrivial.add((p["meta"]["op"], "tail", p["id"].split("/")[-2], p["meta"]["variant"]))
    run.evaluations += len(triples)
    run.samples = [{"body": pbyid[triples[0]["ids"][0]]["steps"], "guarded_true": pbyid[triples[0]["ids"][1]]["steps"]}]
    from concurrent.futures import ThreadPoolExecutor
    chunks = [triples[i:i + 1500] for i in range(0, len(triples), 1500)]
    active = common.active_ids("C07")
    with ThreadPoolExecutor(8) as ex:
        results = list(ex.map(lambda ch: common._tlc_on_chunk("TraceGuarded", "TraceGuarded.cfg", {"triples": ch, "active": active}, 2, False, False, "3g"), chunks))
    for ci, (ch, res) in enumerate(zip(chunks, results)):
        run.add_tlc(res, "zipped U/G1/G0 #%d" % ci)
        run.traces += 3 * len(ch)
        if res.violated:
            t = ch[int(res.state["tid"]) - 1]
            l = int(res.state["l"])
            which = {"Inv_Inert": 2, "Inv_InertComplete": 2}.get(res.violated, 1)
            run.violation({"stage": "zipped", "invariant": res.violated, "tlc_state": res.state, "cfg": cfg,
                           "programs": [pbyid[i] for i in t["ids"]],
                           "events": {k: (t[k][l - 1] if 0 < l <= len(t[k]) else None) for k in ("u", "g1", "g0")},
                           "summary": "%s at body call %d of %s: U=%s G1=%s G0=%s" % (res.violated, l, t["ids"][which],
                                      *[(common.brief(dict(t[k][l - 1], op=t[k][l - 1]["op"])) if 0 < l <= len(t[k]) else "-") for k in ("u", "g1", "g0")])})
    if not run.violations:
        # the recorded witness of every false-guard run satisfies all constraints (raise-free by Inv_Inert)
        common.validate_traces(run, "TraceCore", g0traces, cfg="TraceCore_C01.cfg", label="false-guard runs: Sat", programs=progs, view=views.core, props=["C07"])
    if not run.violations:
        # the block API (_if/_else/_while/_for) enters the same guard: bodies that update containers in place, divide inexactly or
        # compare out-of-range values in the arm that is NOT taken must leave every variable as native control flow does (NativeCF.tla)
        from checks import c09_check
        cprogs = c09_check.cf_programs(tier, lambda nm: nm.startswith(("arr", "mat", "div", "nested", "seq", "iffor", "forif", "whileif", "elif", "ifelse")))
        for p in cprogs:
            p["id"] = "blk/" + p["id"]
        ctr = common.run_programs(c09_check.CF_CFG, cprogs)
        cruns = c09_check.cf_runs(cprogs, ctr)
        run.evaluations += len(cruns)
        for p in cprogs:
            run.nontrivial.add(("block", p["meta"]["name"]))
        cch = [cruns[i:i + 1500] for i in range(0, len(cruns), 1500)]
        with ThreadPoolExecutor(8) as ex:
            cres = list(ex.map(lambda ch: common._tlc_on_chunk("TraceCF", "TraceCF.cfg", {"runs": ch, "active": common.active_ids("C09")}, 2, False, False, "3g"), cch))
        for ci, (ch, res) in enumerate(zip(cch, cres)):
            run.add_tlc(res, "block-API bodies in dead arms vs native #%d" % ci)
            run.traces += len(ch)
            if res.violated:
                r = ch[int(res.state["tid"]) - 1]
                run.violation({"stage": "blocks", "invariant": res.violated, "tlc_state": res.state, "cfg": c09_check.CF_CFG, "run": r,
                               "programs": [next(p for p in cprogs if p["id"] == r["id"])],
                               "summary": "%s for %s inputs %s: block-API run %s %s final %s (a dead arm is not inert)" % (res.violated, r["id"], r["inputs"], r["out"], r["exc"], r["final"])})
        if not run.violations:
            common.validate_traces(run, "TraceCore", ctr, cfg="TraceCore_C01.cfg", label="block-API runs: Sat", programs=cprogs, view=views.core, props=["C07"])
    if not run.violations:
        # selection with lazily evaluated branches: the selected value is unique although the untaken branch's wires are free
        lazy = lazy_programs(2)
        lcfg = {"P": 13, "bitlength": 2, "resolution": 1}   # the untaken branch's wires are all free: tiny field keeps the search finite
        lt = common.run_programs(lcfg, lazy)
        insts = [i for i in (instances.from_trace(t, "unique") for t in lt) if i and i["out"] == "ok" and i["res"]]
        run.notes.append("%d lazily evaluated selections searched (of %d programs)" % (len(insts), len(lazy)))
        common.validate_insts(run, "Soundness", insts, cfg="Soundness_C02.cfg", label="lazy selection: unique", programs=lazy, chunk=40, parallel=8)
    if not run.violations:
        # enforcement under a true guard: assertion instances captured inside guarded(1)
        progs3, insts3 = guarded_assert_insts(run, cfg)
        common.validate_insts(run, "Soundness", insts3, cfg="Soundness_C03.cfg", label="assertions under a true guard", programs=progs3, chunk=200, parallel=8, props=["C03"])
    return run.finish(RULE, assumptions=["bodies are type-correct, so a raise under a false guard is caused by the values met"],
                      trusted=["TLC 1.8", "harness observers"])


def lazy_programs(b):
    progs = []
    bodies_ = [
        ("mul", lambda x, y: [{"op": "bin", "name": "mul", "a": x, "b": y}]),
        ("truediv", lambda x, y: [{"op": "bin", "name": "truediv", "a": x, "b": y}]),
        ("lt", lambda x, y: [{"op": "bin", "name": "lt", "a": x, "b": y}, {"op": "bin", "name": "mul", "a": x, "b": x}]),
        ("assert", lambda x, y: [{"op": "meth", "name": "assert_lt", "a": x, "args": [y]}, {"op": "bin", "name": "mul", "a": x, "b": y}]),
    ]
    for c in (0, 1):
        for (x, y) in ((1, 2), (2, 1), (-1, 1), (0, 3), (2, 2)):
            for nm, bf in bodies_:
                for style in ("SB", "cmp"):
                    B = gen.Builder("lazy/%s/%d/%d,%d/%s" % (nm, c, x, y, style), "plain", None, {"op": "ite_lazy_" + nm, "kinds": style, "a": x, "b": y})
                    if style == "SB":
                        rc = B.opnd(("SB", c))
                        extra = 0
                    else:
                        rs = B.opnd(("S", c))
                    rx, ry = B.opnd(("S", x)), B.opnd(("S", y))
                    n = B.nreg
                    if style == "cmp":
                        B.add({"op": "bin", "name": "gt", "a": rs, "b": {"c": 0}})
                        rc = {"r": n}
                        n += 1
                    body = bf(rx, ry)
                    B.add({"op": "ite", "cond": rc, "tag": "main",
                           "t": {"body": body, "ret": {"r": n + len(body) - 1}},
                           "f": ry})
                    progs.append(B.build())
    return progs


def guarded_assert_insts(run, cfg):
    b = cfg["bitlength"]
    progs = []
    lim = 1 << b
    for nm in gen.ASSERT2:
        for a in range(-lim, lim + 1, 1):
            for bb in (-1, 0, 2):
                for mode in ("g1ign", "g1"):
                    B = gen.Builder("ga/%s/%d,%d/%s" % (nm, a, bb, mode), mode, None, {"op": nm, "kinds": "SS", "a": a, "b": bb, "n": b})
                    ra, rb = B.opnd(("S", a)), B.opnd(("S", bb))
                    B.add({"op": "meth", "name": nm, "a": ra, "args": [rb], "tag": "main"})
                    progs.append(B.build())
    for nm in ("assert_zero", "assert_nonzero", "assert_positive"):
        for a in range(-2, lim + 2):
            for mode in ("g1ign", "g1"):
                B = gen.Builder("ga/%s/%d/%s" % (nm, a, mode), mode, None, {"op": nm, "kinds": "S", "a": a, "n": b})
                B.add({"op": "meth", "name": nm, "a": B.opnd(("S", a)), "tag": "main"})
                progs.append(B.build())
    traces = common.run_programs(cfg, progs)
    byid = {t["id"]: t for t in traces}
    insts = []
    for t in traces:
        if not t["id"].endswith("/g1ign"):
            continue
        tp = byid[t["id"][:-6] + "/g1"]
        mp = [e for e in tp["events"] if e.get("tag") == "main"]
        inst = instances.from_trace(t, "assert", {"accepted": bool(mp) and mp[-1]["out"] == "ok"})
        if inst is None or inst["out"] != "ok":
            continue
        inst["res"] = []
        inst["hardreject"] = False
        insts.append(inst)
    run.evaluations += len(insts)
    return progs, insts


def replay(rec):
    print("replay: re-run `check.py --property C07` (zipped triples are regenerated from the program families); programs involved:")
    for p in rec.get("programs", []):
        print("  ", p["id"])
    return main("quick")
