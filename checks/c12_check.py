"""C12: qaptools equation / wire / I-O files are consistent and split faithfully (Qap.tla on independently parsed files)."""
import json
import os
import re
import subprocess
from concurrent.futures import ThreadPoolExecutor

from harness import common
from harness.decoders import qap

RULE = ("call histories: main only; one sub-circuit called 1-3 times; two different bodies under one function name; nested sub-circuits; "
        "structured arguments and results; negative values; public values before, between and after calls; each run in its own interpreter on "
        "pysnark.qaptools.backend over a small prime (options.vc_p rebound before import) with failing stub executables, files parsed by an "
        "independent reader; distinct = (history shape, values)")

P = 251


def S(v): return {"op": "new", "kind": "priv", "ty": "int", "v": v}
def U(v): return {"op": "new", "kind": "pub", "ty": "int", "v": v}
def R(i): return {"r": i}
def BIN(op, a, b): return {"op": "bin", "name": op, "a": a, "b": b}
def VAL(a): return {"op": "meth", "name": "val", "a": a}


def sub(name, args, steps, ret):
    return {"op": "subqap", "name": name, "args": args, "body": {"steps": steps, "ret": ret}}


def histories(tier):
    """list of (id, steps).  Register numbering: each executed step appends one register; a sub-circuit body first appends
    the list of its (copied) arguments."""
    H = []
    vals = [(3, -2), (0, 5), (-4, -4)] if tier == "quick" else [(3, -2), (0, 5), (-4, -4), (7, 1), (-1, 0), (2, 2)]
    for (a, b) in vals:
        # main only: r0=a r1=b r2=a*b r3=r2+b ; outputs
        H.append(("main/%d,%d" % (a, b), [S(a), U(b), BIN("mul", R(0), R(1)), BIN("add", R(2), R(1)), VAL(R(3)), BIN("mul", R(3), R(3)), VAL(R(5))]))
        # one sub-circuit, called n times.  body: args list at r_k; x=args[0], y=args[1]
        for n in (1, 2, 3):
            steps = [S(a), U(b)]
            reg = 2
            last = [R(0), R(1)]
            for c in range(n):
                body_base = reg          # register of the args list inside the body
                body = [{"op": "item", "a": R(body_base), "i": 0}, {"op": "item", "a": R(body_base), "i": 1}, BIN("mul", R(body_base + 1), R(body_base + 2)),
                        BIN("add", R(body_base + 3), {"c": 1})]
                steps.append(sub("sq", last, body, R(body_base + 4)))
                reg = body_base + 5 + 1  # args list + 4 body steps + the call's own result register
                last = [R(reg - 1), R(0)]
            steps.append(VAL(R(reg - 1)))
            H.append(("sq%d/%d,%d" % (n, a, b), steps))
        # two different bodies under one name: the inconsistency must be reported
        b1 = [{"op": "item", "a": R(2), "i": 0}, BIN("mul", R(3), R(3))]
        b2 = [{"op": "item", "a": R(6), "i": 0}, BIN("mul", R(7), R(7)), BIN("mul", R(8), R(7))]
        H.append(("twobodies/%d,%d" % (a, b), [S(a), U(b), sub("f", [R(0)], b1, R(4)), sub("f", [R(5)], b2, R(9)), VAL(R(10))]))
        # same name, same equations but a different number of results is a different signature too
        b3 = [{"op": "item", "a": R(6), "i": 0}, BIN("mul", R(7), R(7))]
        H.append(("samebody/%d,%d" % (a, b), [S(a), U(b), sub("f", [R(0)], b1, R(4)), sub("f", [R(5)], b3, R(8)), VAL(R(9))]))
        # one call asserts the same equality twice (same wires, textually identical equations), the other not at all / once
        def asserting(base, times):
            return [{"op": "item", "a": R(base), "i": 0}, {"op": "item", "a": R(base), "i": 1}] + \
                   [{"op": "meth", "name": "assert_eq", "a": R(base + 1), "args": [R(base + 1)]} for _ in range(times)] + \
                   [BIN("mul", R(base + 1), R(base + 2))]
        for (t1, t2) in ((0, 2), (1, 2), (2, 2), (1, 3)):
            c1 = asserting(2, t1)
            n1 = 2 + 1 + len(c1) + 1           # registers used so far: a, b, args list, body steps, call result
            c2 = asserting(n1, t2)
            H.append(("dupassert%d%d/%d,%d" % (t1, t2, a, b), [S(a), U(b), sub("f", [R(0), R(1)], c1, R(2 + len(c1))),
                                                              sub("f", [R(0), R(1)], c2, R(n1 + len(c2))), VAL(R(n1 + len(c2) + 1))]))
        # a sub-circuit that returns nothing secret, called twice in a row with no wire created in between
        nb1 = [{"op": "item", "a": R(2), "i": 0}, BIN("mul", R(3), R(3))]
        nb2 = [{"op": "item", "a": R(6), "i": 0}, BIN("mul", R(7), R(7))]
        H.append(("noret2/%d,%d" % (a, b), [S(a), U(b), sub("nr", [R(0)], nb1, {"c": 7}), sub("nr", [R(1)], nb2, {"c": 7}), BIN("mul", R(0), R(1)), VAL(R(10))]))
        # nested: the outer function returns the inner call's result directly (no wire created after the inner call)
        inn = [{"op": "item", "a": R(4), "i": 0}, BIN("mul", R(5), R(5))]
        outr = [{"op": "item", "a": R(2), "i": 0}, sub("inner2", [R(3)], inn, R(6))]
        H.append(("nestedret/%d,%d" % (a, b), [S(a), U(b), sub("outer2", [R(0)], outr, R(7)), VAL(R(8))]))
        # ... and one that returns a linear combination of an argument and the inner result
        outr2 = [{"op": "item", "a": R(2), "i": 0}, sub("inner2", [R(3)], inn, R(6)), BIN("add", R(3), R(7))]
        H.append(("nestedlin/%d,%d" % (a, b), [S(a), U(b), sub("outer3", [R(0)], outr2, R(8)), VAL(R(9))]))
        # nested inconsistency: poly(v) = scale(v) + v is called twice; the OUTER bodies are identical, the INNER ones differ
        def poly(base, extra):
            # registers: base = args list of poly, base+1 = v, base+2 = args list of scale, base+3 = its v, then the inner steps,
            # base+3+nin = result of the inner call, base+4+nin = the sum (returned); the call's own result is base+5+nin
            inner = [{"op": "item", "a": R(base + 2), "i": 0}, BIN("mul", R(base + 3), R(base + 3))] + ([BIN("mul", R(base + 4), R(base + 3))] if extra else [])
            nin = len(inner)
            body = [{"op": "item", "a": R(base), "i": 0}, sub("scale", [R(base + 1)], inner, R(base + 2 + nin)), BIN("add", R(base + 3 + nin), R(base + 1))]
            return body, R(base + 4 + nin), base + 5 + nin
        b1, r1, res1 = poly(2, False)
        b2, r2, res2 = poly(res1 + 1, True)
        H.append(("nestedincons/%d,%d" % (a, b), [S(a), U(b), sub("poly", [R(0)], b1, r1), sub("poly", [R(1)], b2, r2), VAL(R(res2))]))
        b3, r3, res3 = poly(res1 + 1, False)
        H.append(("nestedcons/%d,%d" % (a, b), [S(a), U(b), sub("poly", [R(0)], b1, r1), sub("poly", [R(1)], b3, r3), VAL(R(res3))]))
        # nested: outer(x,y) calls inner(x) and multiplies
        inner_base = 2 + 1 + 2      # outer args list r2, items r3 r4, then the inner call starts at r5
        inner = [{"op": "item", "a": R(5), "i": 0}, BIN("mul", R(6), R(6))]
        outer = [{"op": "item", "a": R(2), "i": 0}, {"op": "item", "a": R(2), "i": 1}, sub("inner", [R(3)], inner, R(7)), BIN("mul", R(8), R(4))]
        H.append(("nested/%d,%d" % (a, b), [S(a), U(b), sub("outer", [R(0), R(1)], outer, R(9)), VAL(R(10)), U(a + b)]))
        # structured arguments / results: list argument with a constant inside, tuple result
        st = [{"op": "item", "a": R(2), "i": 0}, {"op": "item", "a": R(3), "i": 0}, {"op": "item", "a": R(3), "i": 1}, BIN("mul", R(4), R(5)), BIN("sub", R(6), R(4))]
        H.append(("struct/%d,%d" % (a, b), [S(a), U(b), sub("g", [{"l": [R(0), R(1), {"c": 9}]}, {"c": 4}], st, {"t": [R(6), R(7), {"c": 1}]}),
                                            {"op": "item", "a": R(8), "i": 1}, VAL(R(9))]))
    # a proving step in the middle: the function is called before and after it, and a new one only afterwards
    for (a, b) in ((3, 2), (-2, 5)):
        c1 = [{"op": "item", "a": R(2), "i": 0}, BIN("mul", R(3), R(3))]
        c2 = [{"op": "item", "a": R(7), "i": 0}, BIN("mul", R(8), R(8))]
        c3 = [{"op": "item", "a": R(11), "i": 0}, BIN("mul", R(12), R(12)), BIN("mul", R(13), R(12))]
        H.append(("midprove/%d,%d" % (a, b), [S(a), U(b), sub("f", [R(0)], c1, R(4)), {"op": "prove"}, sub("f", [R(1)], c2, R(9)),
                                              sub("g", [R(5)], c3, R(14)), VAL(R(15))]))
    # operands that differ by a multiple of the prime (zero in the field, non-zero as integers): the zero test needs an inverse that
    # does not exist -- the call must refuse, and whatever it does every equation written must stay satisfied
    for nm, st in (("eq", BIN("eq", R(0), R(1))), ("ne", BIN("ne", R(0), R(1))), ("assert_ne", {"op": "meth", "name": "assert_ne", "a": R(0), "args": [R(1)]})):
        H.append(("wrap/%s" % nm, [S(P + 5), S(5), st, BIN("mul", R(0), R(1)), VAL(R(3))]))
    # closures: the body of a sub-circuit uses a wire of its CALLER that was not passed as an argument (secret or public, directly or
    # in a nested call): the equation mixes two contexts -- the proving step must report it and write no per-function file that
    # names a foreign wire
    for (a, b) in ((3, 2), (-2, 5)):
        for kind, mk in (("priv", S), ("pub", U)):
            clo = [{"op": "item", "a": R(2), "i": 0}, BIN("mul", R(3), R(1))]
            H.append(("closure/%s/%d,%d" % (kind, a, b), [S(a), mk(b), sub("clo", [R(0)], clo, R(4)), VAL(R(5))]))
            # called twice (the second call alone would be consistent with the first)
            clo2 = [{"op": "item", "a": R(6), "i": 0}, BIN("mul", R(7), R(1))]
            H.append(("closure2/%s/%d,%d" % (kind, a, b), [S(a), mk(b), sub("clo", [R(0)], clo, R(4)), sub("clo", [R(5)], clo2, R(8)), VAL(R(9))]))
        # the closure is over a wire of the OUTER sub-circuit, used in the inner one
        inn = [{"op": "item", "a": R(4), "i": 0}, BIN("mul", R(5), R(3))]
        outr = [{"op": "item", "a": R(2), "i": 0}, sub("cinner", [R(0)], inn, R(6)), BIN("add", R(7), R(3))]
        H.append(("closurenested/%d,%d" % (a, b), [S(a), S(b), sub("couter", [R(1)], outr, R(8)), VAL(R(9))]))
    # a comparison inside a sub-circuit (uses the global constant one)
    cmpb = [{"op": "item", "a": R(1), "i": 0}, BIN("eq", R(2), {"c": 3})]
    H.append(("cmpinside/3", [S(3), sub("h", [R(0)], cmpb, R(2)), {"op": "peek", "a": {"c": 0}}]))
    return H


def from_model(hist):
    """QapCtx history -> op-record steps (see QapCtx.tla: priv, mul, pub, call(f, n), ret(m))"""
    top = []
    stack = [{"steps": top, "wires": []}]
    reg = 0
    for h in hist:
        cur = stack[-1]
        a = h["a"]
        if a == "priv":
            cur["steps"].append(S(3)); cur["wires"].append(reg); reg += 1
        elif a == "pub":
            cur["steps"].append(U(2)); cur["wires"].append(reg); reg += 1
        elif a == "mul":
            # (latest wire) * (first wire of this context): values grow like 3^k, not 3^(2^k) -- TLC integers are 32 bit
            cur["steps"].append(BIN("mul", R(cur["wires"][-1]), R(cur["wires"][0]))); cur["wires"].append(reg); reg += 1
        elif a == "call":
            n = h["n"]
            w = cur["wires"]
            args = [R(w[-1 - (k % len(w))]) for k in range(n)]
            body = []
            fr = {"steps": body, "wires": [], "args": args, "fname": h["f"], "argsreg": reg}
            reg += 1
            for k in range(n):
                body.append({"op": "item", "a": R(fr["argsreg"]), "i": k}); fr["wires"].append(reg); reg += 1
            stack.append(fr)
        elif a == "prove":
            if h is not hist[-1]:
                top.append({"op": "prove"}); reg += 1      # a proving step in the middle of the program (the last one is the runner's)
        elif a == "ret":
            fr = stack.pop()
            ret = R(fr["wires"][-1]) if h["n"] == 1 else {"c": 7}
            par = stack[-1]
            par["steps"].append(sub(fr["fname"], fr["args"], fr["steps"], ret))
            if h["n"] == 1:
                par["wires"].append(reg)
            reg += 1
    return top


def model_histories(run, tier):
    import os
    from harness import tlc
    with common.scratch("qc_") as d:
        cf = os.path.join(d, "gen.cfg")
        open(cf, "w").write("SPECIFICATION Spec\nCONSTANT MaxLen = %d\nCONSTANT MaxDepth = 2\nCONSTANT Fns = {\"f\", \"g\"}\nINVARIANT UniqueCalls\nINVARIANT UniqueBlocks\n"
                            "INVARIANT GlueShape\nINVARIANT SplitSeesAll\nINVARIANT EmitBeh\nCHECK_DEADLOCK FALSE\n" % (6 if tier == "quick" else 8))
        res = tlc.run("QapCtx", cfg=cf, workers=8)
    run.add_tlc(res, "QapCtx.tla: unique call ids / block names, glue shape, split sees every equation")
    if res.violated:
        run.violation({"stage": "design", "invariant": res.violated, "tlc_state": res.state, "summary": "QapCtx.tla violates %s: %s" % (res.violated, res.state.get("hist"))})
        return []
    behs = [json.loads(json.loads(r)) for r in sorted(set(res.tagged("BEH")))]
    behs = [b for b in behs if any(h["a"] == "call" for h in b["hist"])]
    step = max(1, len(behs) // (250 if tier == "quick" else 2500))
    return behs[::step]


def run_one(args):
    hid, steps, d, k = args
    wd = os.path.join(d, "r%d" % k)
    os.makedirs(wd)
    jf, of = os.path.join(wd, "job.json"), os.path.join(wd, "out.json")
    json.dump({"prime": P, "bitlength": 4, "program": {"id": hid, "steps": steps}}, open(jf, "w"))
    env = common.child_env({"PYTHONPATH": common.ROOT + os.pathsep + common.REPO, "QAPTOOLS_BIN": os.path.join(common.ROOT, "shims", "qaptools-bin")})
    p = subprocess.run([common.PY, "-m", "harness.qaprun", jf, of], cwd=wd, env=env, stdout=subprocess.PIPE, stderr=subprocess.PIPE, timeout=300, stdin=subprocess.DEVNULL)
    if p.returncode != 0 or not os.path.exists(of):
        raise common.MachineryError("qaprun failed for %s: %s" % (hid, p.stderr.decode("utf8", "replace")[-1500:]))
    out = json.load(open(of))
    mid = [e for e in out.get("mid_prove_err", []) if e]
    if mid and not out["prove_err"]:
        out["prove_err"] = mid[0]           # a proving step in the middle of the program failed: judged like the final one
    eqs = qap.parse_eqs(os.path.join(wd, "pysnark_eqs"))           # read after the process ended: complete
    wires = qap.parse_values(os.path.join(wd, "pysnark_wires"))
    io = qap.parse_values(os.path.join(wd, "pysnark_values"))
    fns = [{"fname": i["fname"], "call": i["call"]} for i in eqs if i["t"] == "fn"]
    blocks = []
    for i in eqs:
        if i["t"] == "ioblock":
            ctx, bn, ws = i["raw"][0], i["raw"][1], i["raw"][2:]
            blocks.append({"ctx": ctx, "bn": bn, "wires": ws, "norm": [bn] + [qap.split_name(w)["loc"] for w in ws]})
    fnfiles = {}
    for f in set(x["fname"] for x in fns):
        pth = os.path.join(wd, "pysnark_eqs_" + f)
        if os.path.exists(pth):
            fnfiles[f] = qap.parse_eqs(pth)
    digests = [{"id": m.group(1), "fname": m.group(2), "digest": m.group(3)} for m in re.finditer(r"id: (\S+) function: (\S+) digest: (\S+)", out["stderr"])]
    rnd1 = {}
    for k_, v in wires.items():
        ctx, _, loc = k_.partition("/")
        if loc.startswith("rnd1_"):
            rnd1.setdefault(ctx, {})[loc[5:]] = v
    for g in eqs:
        if g["t"] == "glue":
            for c_, b_ in ((g["c1"], g["b1"]), (g["c2"], g["b2"])):
                rnd1.setdefault(c_, {}).setdefault(b_, -1 - len(rnd1))
    npub = len([1 for s in json.dumps(steps).split('"kind": "pub"')]) - 1 + json.dumps(steps).count('"name": "val"')
    return {"id": hid, "P": P, "raised": out["raised"], "eqs": eqs, "wires": wires, "io": io, "fns": fns, "blocks": blocks, "fnfiles": fnfiles or {"_": []},
            "digests": digests, "rnd1": rnd1 or {"_": {"_": 0}}, "calls": out["calls"], "npub": npub,
            "proved_split": "*** qaptools subroutines:" in out["stderr"] and "Inconsistent" not in out["prove_err"] and not out["prove_err"].startswith("ValueError"),
            "inconsistency_reported": "Inconsistent functions" in out["prove_err"] or "Inconsistent functions" in out["stderr"],
            "ctxmix_reported": "Inconsistent contexts" in out["prove_err"] or "Inconsistent contexts" in out["stderr"],
            "prove_err": out["prove_err"], "traced": len(out["traced"])}


def main(tier):
    run = common.Run("C12", tier)
    H = histories(tier)
    behs = model_histories(run, tier)
    mh = [("model/%d" % i, from_model(b["hist"])) for i, b in enumerate(behs)]
    H = H + mh
    with common.scratch("qap_") as d:
        with ThreadPoolExecutor(common.NPROC) as ex:
            cases = list(ex.map(run_one, [(hid, steps, d, k) for k, (hid, steps) in enumerate(H)]))
    for c in cases:
        run.nontrivial.add(c["id"])
    run.evaluations += len(cases)
    run.traces += len(cases)
    run.samples = [{"id": cases[1]["id"], "functions": cases[1]["fns"], "n_equation_items": len(cases[1]["eqs"]), "calls": cases[1]["calls"]}]
    chunks = [cases[i:i + 8] for i in range(0, len(cases), 8)]
    active = common.active_ids("C12")
    with ThreadPoolExecutor(8) as ex:
        results = list(ex.map(lambda ch: common._tlc_on_chunk("Qap", "Qap.cfg", {"cases": ch, "active": active}, 2, False, False, "3g"), chunks))
    for ci, (ch, res) in enumerate(zip(chunks, results)):
        run.add_tlc(res, "parsed files #%d" % ci)
        if res.violated:
            c = ch[int(res.state["tid"]) - 1]
            run.violation({"stage": "qap", "invariant": res.violated, "tlc_state": res.state, "history": next(h for h in H if h[0] == c["id"]),
                           "prove_err": c["prove_err"], "functions": c["fns"], "digests": c["digests"],
                           "summary": "%s for run %s (prove: %s)" % (res.violated, c["id"], c["prove_err"] or "split ran")})
    if not run.violations and behs:
        # conformance of the files with the mechanism spec's prediction (ids, block names and sizes, glue records, equation count)
        byid = {c["id"]: c for c in cases}
        pairs = []
        for i, b in enumerate(behs):
            c = byid["model/%d" % i]
            impl = {"calls": [[f["fname"], f["call"]] for f in c["fns"]],
                    "blocks": [[bl["ctx"], bl["bn"], len(bl["wires"])] for bl in c["blocks"]],
                    "glues": [[g["c1"], g["b1"], g["c2"], g["b2"]] for g in c["eqs"] if g["t"] == "glue"],
                    "neq": len([e for e in c["eqs"] if e["t"] == "eq"])}
            pairs.append({"id": c["id"], "model": b, "impl": impl})
        r = common._tlc_on_chunk("QapConf", "QapConf.cfg", {"pairs": pairs}, 8, False, False, "3g")
        run.states += r.distinct
        run.extra["qapctx_model_drift"] = bool(r.violated)
        if r.error:
            raise common.MachineryError("QapConf: " + r.error)
        if r.violated:
            pr = pairs[int(r.state["tid"]) - 1]
            print("MODEL-DRIFT: %s: files of %s differ from QapCtx.tla: model calls %s blocks %s neq %s ; files %s" % (
                r.violated, pr["id"], [c_["id"] for c_ in pr["model"]["calls"]], [(b_["ctx"], b_["bn"], b_["n"]) for b_ in pr["model"]["blocks"]], pr["model"]["neq"], pr["impl"]))
    return run.finish(RULE, assumptions=["the qaptools executables are failing stubs: only the files pysnark itself writes are judged", "small-prime instantiation p=251"],
                      trusted=["TLC 1.8", "harness/decoders/qap.py (parser)", "harness/qaprun.py (observer)"])


def replay(rec):
    return main("quick")
