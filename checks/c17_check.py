"""C17: a @snark function exposes exactly its arguments and results as public values (SnarkDeco.tla) and ties each output
to the computed wire (Soundness.tla)."""
import itertools
import json

from harness import common, gen, instances

RULE = ("argument structures (ints, floats, bools, secrets, strings; lists, tuples, dicts; nesting depth 2; 1-3 arguments) x function bodies "
        "(identity, reverse, arithmetic re-structuring, first, constants) x sequences of up to 3 decorated calls in one run, plus keyword "
        "arguments; TLC compares the ordered public values appended during each call with SnarkDeco's expectation; "
        "distinct = (argument shape, body) classes")

SHAPES = [
    ("int", {"c": 3}), ("float", {"f": [5, 2]}), ("bool", {"b": True}), ("boolF", {"b": False}), ("str", {"s": "text"}), ("neg", {"c": -2}),
    ("list_if", {"l": [{"c": 1}, {"f": [3, 2]}]}), ("tuple_bi", {"t": [{"b": True}, {"c": 4}]}),
    ("dict", {"d": {"a": {"c": 1}, "b": {"l": [{"f": [2, 1]}, {"c": 3}]}}}),
    ("nest", {"l": [{"l": [{"c": 1}]}, {"t": [{"f": [1, 2]}, {"b": True}, {"s": "x"}]}]}), ("empty", {"l": []}),
    ("fint", {"f": [2, 1]}),
    # a dict whose keys were NOT inserted in sorted order: public values follow the dict's own order
    ("dictrev", {"d": {"b": {"c": 7}, "a": {"c": 3}, "c": {"t": [{"f": [1, 2]}, {"c": 4}]}}}),
]
BODIES = ["identity", "reverse", "sumprod", "first", "const"]


def call_step(args, how, kw=None):
    st = {"op": "snark", "args": args, "body": {"steps": [], "ret": "args", "how": how}, "tag": "main"}
    if kw:
        st["kw"] = kw
    return st


def programs(tier):
    progs = []
    names = [n for n, _ in SHAPES]
    shp = dict(SHAPES)
    seqs = [(a,) for a in names] + list(itertools.product(names, repeat=2))
    tri = list(itertools.product(names, repeat=3))
    seqs += tri[::(17 if tier == "quick" else 3)]
    for si, seq in enumerate(seqs):
        for how in BODIES:
            if how != "identity" and si % (3 if tier == "quick" else 1) != 0:
                continue
            B = gen.Builder("snark/%s/%s" % ("-".join(seq), how), "plain", None, {"op": how, "kinds": "-".join(seq)})
            B.add(call_step([shp[a] for a in seq], how))
            progs.append(B.build())
    # a pre-existing secret among the arguments stays what it is and is not made public as an argument
    for how in ("identity", "sumprod"):
        B = gen.Builder("snark/secretarg/%s" % how, "plain", None, {"op": how, "kinds": "secretarg"})
        r = B.opnd(("S", 4))
        B.add(call_step([{"c": 2}, r, {"f": [3, 2]}], how))
        progs.append(B.build())
    # aliasing: the SAME container object passed twice / reachable twice, and the same secret returned several times
    for how in ("identity", "dup", "sumprod"):
        for nm, mk in (("samelist", lambda r: [r, r]), ("nestedsame", lambda r: [{"l": [r, r]}, {"c": 5}]), ("tuplesame", lambda r: [{"t": [r, {"f": [1, 2]}, r]}])):
            B = gen.Builder("snark/alias/%s/%s" % (nm, how), "plain", None, {"op": how, "kinds": "alias-" + nm})
            B.add({"op": "peek", "a": {"l": [{"c": 3}, {"f": [5, 2]}, {"b": True}]}})
            B.add(call_step(mk({"r": 0}), how))
            progs.append(B.build())
    for how in ("dup",):
        for seq in (("int",), ("float", "int"), ("list_if",), ("bool", "float")):
            B = gen.Builder("snark/dupret/%s" % "-".join(seq), "plain", None, {"op": how, "kinds": "-".join(seq)})
            B.add(call_step([shp[a] for a in seq], how))
            progs.append(B.build())
    # several decorated calls in one run
    for k, (a, b, c) in enumerate(tri[::(40 if tier == "quick" else 7)]):
        B = gen.Builder("snark/multi/%d" % k, "plain", None, {"op": "multi", "kinds": "%s|%s|%s" % (a, b, c)})
        B.add(call_step([shp[a], shp[b]], "identity"))
        B.add(call_step([shp[c]], "sumprod"))
        B.add(call_step([shp[b], shp[c], shp[a]], "reverse"))
        progs.append(dict(B.build(), fresh=True))
    # a decorated call whose body raises (the program catches it) leaves nothing behind: the decorated calls after it are ordinary
    for k, (a, b) in enumerate((("int", "float"), ("list_if", "int"), ("bool", "bool"))):
        for bad in ("raise", "assert"):
            B = gen.Builder("snark/afterexc/%s/%d" % (bad, k), "plain", None, {"op": "afterexc", "kinds": "%s|%s" % (a, b)})
            inner = [{"op": "raise"}] if bad == "raise" else [{"op": "new", "kind": "priv", "ty": "int", "v": 3}, {"op": "meth", "name": "assert_zero", "a": {"r": 2}}]
            B.add({"op": "try", "body": [{"op": "snark", "args": [shp[a]], "body": {"steps": inner, "ret": "args", "how": "identity"}}]})
            B.add(call_step([shp[b]], "identity"))
            B.add(call_step([shp[a], shp[b]], "sumprod"))
            progs.append(dict(B.build(), fresh=True))
    # keyword arguments
    for a in ("int", "float", "list_if"):
        B = gen.Builder("snark/kw/%s" % a, "plain", None, {"op": "kw", "kinds": a})
        B.add(call_step([shp[a]], "identity", kw={"x": {"c": 1}}))
        progs.append(B.build())
        B = gen.Builder("snark/kwonly/%s" % a, "plain", None, {"op": "kw", "kinds": a})
        B.add(call_step([], "const", kw={"x": shp[a]}))
        progs.append(B.build())
    return progs


def leafr(x):
    return {"k": x["k"], "v": x["v"], "d": x["d"], "w": x["w"]}


def calls_of(tr, prog):
    out = []
    evs = tr["events"]
    i = 0
    def snarks(steps):
        for s in steps:
            if s["op"] == "snark":
                yield s
            elif isinstance(s.get("body"), list):
                yield from snarks(s["body"])           # decorated calls inside try blocks
    kws = [bool(s.get("kw")) for s in snarks(prog["steps"])]
    k = 0
    while i < len(evs):
        if evs[i]["op"] == "snark_enter":
            j = i
            pubs = []
            while evs[j]["op"] != "snark":
                pubs += [x["v"] for x in evs[j]["npub"]]
                j += 1
            pubs += [x["v"] for x in evs[j]["npub"]]
            e = evs[j]
            out.append({"id": "%s#%d" % (tr["id"], k), "resolution": tr["cfg"]["resolution"], "out": e["out"], "exc": e["exc"], "kw": kws[k],
                        "called": bool(e.get("called")), "args": [leafr(x) for a in evs[i]["args"] for x in a],
                        "inner_args": [leafr(x) for x in e.get("inner_args", [])], "inner_ret": [leafr(x) for x in e.get("inner_ret", [])],
                        "res": [leafr(x) for x in e["res"]], "shape": e["shape"], "inner_shape": e.get("inner_shape", ""), "pubs": pubs})
            k += 1
            i = j
        i += 1
    return out


def main(tier):
    run = common.Run("C17", tier)
    cfg = {"P": 4099, "bitlength": 5, "resolution": 2}
    progs = programs(tier)
    traces = common.run_programs(cfg, progs)
    calls = []
    for p, t in zip(progs, traces):
        cs = calls_of(t, p)
        calls += cs
        run.nontrivial.add((p["meta"]["kinds"], p["meta"]["op"]))
    run.evaluations += len(calls)
    run.traces += len(traces)
    run.samples = [calls[0], calls[len(calls) // 2]]
    res = common._tlc_on_chunk("SnarkDeco", "SnarkDeco.cfg", {"calls": calls}, 8, False, False, "3g")
    run.add_tlc(res, "public vector per call")
    if res.violated:
        c = calls[int(res.state["tid"]) - 1]
        run.violation({"stage": "snark", "invariant": res.violated, "tlc_state": res.state, "cfg": cfg, "call": c,
                       "program": next(p for p in progs if p["id"] == c["id"].split("#")[0]),
                       "summary": "%s for %s: args %s -> pubs %s (inner_ret %s, returned %s)" % (
                           res.violated, c["id"], [(x["k"], x["v"], x["d"]) for x in c["args"]], c["pubs"],
                           [(x["k"], x["v"]) for x in c["inner_ret"]], [(x["k"], x["v"], x["d"]) for x in c["res"]])})
    if not run.violations:
        # each output wire is forced equal to the computed wire: adversarial search over the wires allocated during the call
        scfg = {"P": 67, "bitlength": 2, "resolution": 1}
        sp = []
        for how in ("identity", "sumprod", "reverse"):
            for seq in (("int",), ("int", "float"), ("bool", "int"), ("list_if",)):
                B = gen.Builder("tie/%s/%s" % ("-".join(seq), how), "plain", None, {"op": "snark_" + how, "kinds": "-".join(seq)})
                B.add(call_step([dict(SHAPES)[a] for a in seq], how))
                sp.append(B.build())
        st = common.run_programs(scfg, sp)
        insts = []
        for t in st:
            inst = instances.from_trace(t, "unique")
            e = [x for x in t["events"] if x["op"] == "snark"][-1]
            if inst is None or e["out"] != "ok":
                continue
            first_out = e["npub_at_ret"]
            outs = list(range(first_out + 1, e["npub_total"] + 1))
            inst["res"] = [{"k": "int", "m": inst["pub"][w - 1], "lc": [[w, 1]]} for w in outs]
            # arguments are the prover's inputs: fix them (the pubs allocated before the body ran), search the rest
            if inst["res"]:
                insts.append(instances.refix(inst, first_out, 0))
        run.notes.append("%d decorated calls searched for output ties" % len(insts))
        common.validate_insts(run, "Soundness", insts, cfg="Soundness_C02.cfg", label="outputs tied to computed wires", programs=sp, chunk=2, parallel=8, props=["C17"])
    return run.finish(RULE, assumptions=["floats are exactly representable at the resolution"], trusted=["TLC 1.8", "harness observers"])


def replay(rec):
    return main("quick")
