"""C16: bit decomposition and packing round-trip at the requested width (Pack.tla / TracePack.tla + Soundness.tla for in-circuit width)."""
import itertools

from harness import common, gen, instances
from checks import c03_check

RULE = ("to_bits(n)/from_bits for every width n in 1..b+2 (and the default) and every v in -1..2^n at global bitlengths 2,3; packers "
        "(bool, intmod 2..9, lists, repetitions, nesting depth 2) x all in-range leaf vectors of small schemas + out-of-range ones, plain and "
        "secret inputs; in-circuit enforcement of the requested width by adversarial search; distinct = (family, schema/width, plain|secret)")

SCHEMAS = [
    ["bool"], ["intmod", 2], ["intmod", 3], ["intmod", 4], ["intmod", 5], ["intmod", 6], ["intmod", 7], ["intmod", 8], ["intmod", 9],
    ["list", [["bool"], ["intmod", 3]]],
    ["list", [["intmod", 5], ["intmod", 2], ["bool"]]],
    ["repeat", ["bool"], 3],
    ["repeat", ["intmod", 3], 2],
    ["list", [["repeat", ["bool"], 2], ["intmod", 6]]],
    ["repeat", ["list", [["bool"], ["intmod", 3]]], 2],
    ["list", [["list", [["intmod", 2], ["intmod", 4]]], ["bool"]]],
    ["list", []],
    ["intmod", 1],
    ["list", [["intmod", 1], ["bool"]]],
    ["list", [["bool"], ["intmod", 1], ["intmod", 3]]],
    ["repeat", ["intmod", 1], 2],
]


def tla_schema(s):
    if s[0] == "bool":
        return {"t": "bool"}
    if s[0] == "intmod":
        return {"t": "intmod", "m": s[1]}
    if s[0] == "list":
        return {"t": "list", "items": [tla_schema(x) for x in s[1]]}
    return {"t": "repeat", "of": tla_schema(s[1]), "n": s[2]}


def leaf_domains(s):
    if s[0] == "bool":
        return [[0, 1]]
    if s[0] == "intmod":
        return [list(range(-1, s[1] + 2))]
    if s[0] == "list":
        return [d for x in s[1] for d in leaf_domains(x)]
    return [d for _ in range(s[2]) for d in leaf_domains(s[1])]


def structure(s, leaves, B, secret, boolkind):
    """Build the structured operand (consumes leaves)."""
    if s[0] == "bool":
        v = leaves.pop(0)
        return B.opnd((boolkind, v)) if secret else {"c": v}
    if s[0] == "intmod":
        v = leaves.pop(0)
        return B.opnd(("S", v)) if secret else {"c": v}
    if s[0] == "list":
        return {"l": [structure(x, leaves, B, secret, boolkind) for x in s[1]]}
    return {"l": [structure(s[1], leaves, B, secret, boolkind) for _ in range(s[2])]}


def pack_programs(tier):
    progs = []
    for si, s in enumerate(SCHEMAS):
        doms = leaf_domains(s)
        combos = list(itertools.product(*doms)) if doms else [()]
        if len(combos) > (150 if tier == "quick" else 1500):
            combos = combos[::max(1, len(combos) // (150 if tier == "quick" else 1500))]
        for ci, leaves in enumerate(combos):
            for secret, boolkind in ((False, "c"), (True, "S"), (True, "SB")):
                if boolkind == "SB" and "bool" not in str(s):
                    continue
                B = gen.Builder("pack/%d/%d/%s" % (si, ci, boolkind), "plain", None,
                                {"family": "pack", "schema": s, "leaves": list(leaves), "secret": secret, "boolkind": boolkind})
                val = structure(s, list(leaves), B, secret, boolkind)
                n = B.nreg
                B.add({"op": "bitlen", "schema": s, "tag": "bitlen"})
                B.add({"op": "pack", "schema": s, "a": val, "tag": "pack"})
                B.add({"op": "unpack", "schema": s, "a": {"r": n + 1}, "tag": "unpack"})
                progs.append(B.build())
    return progs


def bits_programs(b):
    progs = []
    for n in [None] + list(range(0, b + 3)):
        w = b if n is None else n
        for v in range(-2, (1 << w) + 2):
            B = gen.Builder("bits/%s/%d" % (n, v), "plain", None, {"family": "bits", "v": v, "n": w, "explicit": n is not None})
            r = B.opnd(("S", v))
            st = {"op": "meth", "name": "to_bits", "a": r, "tag": "to_bits"}
            if n is not None:
                st["kw"] = {"bits": {"c": n}}
            B.add(st)
            B.add({"op": "call", "fn": "from_bits", "args": [{"r": B.nreg}], "tag": "from_bits"})
            progs.append(B.build())
    return progs


def bits_seq_programs(b):
    """x.to_bits(n1) (or a default-width gadget) followed by x.to_bits(n2) / assert_positive(bits=n2) on the SAME object"""
    progs = []
    firsts = [("tb%d" % n1, {"op": "meth", "name": "to_bits", "kw": {"bits": {"c": n1}}}) for n1 in range(1, b + 3)] + \
             [("tbd", {"op": "meth", "name": "to_bits"}), ("inv", {"op": "un", "name": "invert"}), ("chk", {"op": "meth", "name": "check_positive"})]
    for fnm, f in firsts:
        for n2 in range(0, b + 2):
            for v in range(0, 1 << (b + 1)):
                B = gen.Builder("bits2/%s/%d/%d" % (fnm, n2, v), "plain", None, {"family": "bits", "v": v, "n": n2, "explicit": True})
                r = B.opnd(("S", v))
                B.add(dict(f, a=r))
                B.add({"op": "meth", "name": "to_bits", "a": r, "kw": {"bits": {"c": n2}}, "tag": "to_bits"})
                B.add({"op": "call", "fn": "from_bits", "args": [{"r": B.nreg + 1}], "tag": "from_bits"})
                progs.append(B.build())
    return progs


def case_of(tr):
    m = tr["meta"]
    evs = []
    for e in tr["events"]:
        t = e.get("tag")
        if t == "to_bits":
            evs.append({"kind": "to_bits", "v": m["v"], "n": m["n"], "out": e["out"], "res": [x["v"] for x in e["res"]], "kinds": [x["k"] for x in e["res"]]})
        elif t == "from_bits":
            if e["out"] == "ok" or True:
                bits = [x["v"] for x in e["args"][0]] if e["args"] else []
                evs.append({"kind": "from_bits", "v": m["v"], "bits": bits, "out": e["out"] if all(x["k"] != "none" for x in (e["args"][0] if e["args"] else [])) else "skipped",
                            "res": [x["v"] for x in e["res"]]})
        elif t in ("bitlen", "pack", "unpack"):
            evs.append({"kind": t, "out": e["out"], "res": [x["v"] for x in e["res"]]})
    c = {"id": tr["id"], "family": m["family"], "events": evs, "schema": {"t": "bool"}, "leaves": [], "secret": False}
    if m["family"] == "pack":
        c.update({"schema": tla_schema(m["schema"]), "leaves": m["leaves"], "secret": m["secret"]})
    return c


def main(tier):
    run = common.Run("C16", tier)
    allprogs = []
    cases = []
    for b in (2, 3, 4):
        cfg = {"P": {2: 67, 3: 257, 4: 1031}[b], "bitlength": b, "resolution": 1}
        progs = bits_programs(b) + (bits_seq_programs(b) if b <= 3 else [])
        for p in progs:
            p["id"] = "b%d/" % b + p["id"]
        if b == 4:
            progs = pack_programs(tier) + (progs if tier != "quick" else [])
        traces = common.run_programs(cfg, progs)
        allprogs += progs
        for t in traces:
            cases.append(case_of(t))
            m = t["meta"]
            run.nontrivial.add((m["family"], str(m.get("schema", m.get("n"))), m.get("boolkind", "")))
    run.evaluations += len(cases)
    run.samples = [cases[3], cases[-5]]
    from concurrent.futures import ThreadPoolExecutor
    chunks = [cases[i:i + 1500] for i in range(0, len(cases), 1500)]
    with ThreadPoolExecutor(8) as ex:
        results = list(ex.map(lambda ch: common._tlc_on_chunk("TracePack", "TracePack.cfg", {"cases": ch}, 2, False, False, "3g"), chunks))
    for ci, (ch, res) in enumerate(zip(chunks, results)):
        run.add_tlc(res, "round trips #%d" % ci)
        run.traces += len(ch)
        if res.violated:
            c = ch[int(res.state["tid"]) - 1]
            l = int(res.state["l"])
            run.violation({"stage": "roundtrip", "invariant": res.violated, "tlc_state": res.state, "case": c,
                           "program": next(p for p in allprogs if p["id"] == c["id"]),
                           "summary": "%s for %s: event %s" % (res.violated, c["id"], c["events"][l - 1] if l else c)})
    if not run.violations:
        # unpacking SECRET bits enforces the range of the packed type: captured with checks off, unsatisfiable for every bit pattern
        # at or above the modulus (moduli that are, are one less than, and are far from a power of two)
        for cfg in ([{"P": 67, "bitlength": 3, "resolution": 1}]):
            uprogs, uinsts = c03_check.build_insts(run, cfg, tier, select=lambda pid: "/unpack/" in pid)
            common.validate_insts(run, "Soundness", uinsts, cfg="Soundness_C03.cfg", label="range of unpacked secrets enforced in-circuit", programs=uprogs, chunk=20, parallel=8, props=["C03", "C16"])
        # the width argument is the width enforced in-circuit: free-operand search on to_bits(n) / assert_positive(bits=n)
        for cfg in ([{"P": 13, "bitlength": 2, "resolution": 1}] if tier == "quick" else [{"P": 13, "bitlength": 2, "resolution": 1}, {"P": 37, "bitlength": 3, "resolution": 1}]):
            progs, insts = c03_check.free_insts(run, cfg, tier)
            insts = [i for i in insts if i["op"] in ("to_bits", "assert_positive")]
            common.validate_insts(run, "Soundness", insts, cfg="Soundness_C03.cfg", label="width enforced in-circuit, P=%d" % cfg["P"], programs=progs, chunk=4, parallel=8, props=["C03", "C16"])
    return run.finish(RULE, assumptions=["structured values are compared as their depth-first leaf sequences"], trusted=["TLC 1.8", "harness observers"])


def replay(rec):
    return main("quick")
