"""C13: backend linear combinations are a faithful immutable algebra over a prime field (LinAlg.tla histories replayed on every
backend's LC class, TraceLinAlg.tla), moduli and inverses by exact limb arithmetic (FieldFacts.tla)."""
import json
import os
import subprocess

from harness import common, tlc

RULE = ("every history of 2 operations (quick; + simulated histories of 5 operations) over a pool {v1, v2, one, zero}: add/sub of any two pool "
        "objects (incl. an object with itself and the shared one/zero), negation, scaling by 0, 1, -1, 2, p-1, p, p+1 -- generated exhaustively "
        "by TLC from LinAlg.tla, replayed on the LC class of snarkjs, zkinterface (3 fields), qaptools and the harness recorder; after each "
        "operation the term maps of ALL pool objects are compared with the spec; distinct = histories x backends")

BACKENDS = ["snarkjs", "zkinterface", "zkifbellman", "zkifbulletproofs", "qaptools", "recorder:251"]
XS = [{"s": s, "t": t} for s in (1, 2, 3, -1, -2, 7, 0) for t in (0, 1, -1, 2)]


def gen_histories(run, maxlen, simulate=None):
    with common.scratch("gen_") as d:
        cf = os.path.join(d, "gen.cfg")
        with open(cf, "w") as f:
            f.write("SPECIFICATION Spec\nCONSTANT P = 0\nCONSTANT MaxLen = %d\nINVARIANT Emit\nCHECK_DEADLOCK FALSE\n" % maxlen)
        res = tlc.run("LinAlg", cfg=cf, workers=8, simulate=simulate, depth=maxlen + 1 if simulate else None, seed=common.seed() if simulate else None)
    run.add_tlc(res, "LinAlg generator len=%d%s" % (maxlen, " (simulation)" if simulate else ""))
    return [json.loads(json.loads(r)) for r in sorted(set(res.tagged("BEH")))]


def design_check(run):
    for P, ml in ((0, 2), (7, 2)):
        with common.scratch("mc_") as d:
            cf = os.path.join(d, "mc.cfg")
            with open(cf, "w") as f:
                f.write("SPECIFICATION Spec\nCONSTANT P = %d\nCONSTANT MaxLen = %d\nINVARIANT Hom\nPROPERTY Immutable\nCHECK_DEADLOCK FALSE\n" % (P, ml))
            res = tlc.run("LinAlg", cfg=cf, workers=8)
        run.add_tlc(res, "LinAlg design check P=%d" % P)
        if res.violated:
            run.violation({"stage": "design", "invariant": res.violated, "tlc_state": res.state, "summary": "LinAlg.tla violates " + res.violated})


def replay_on(backend, hists, d):
    jf, of = os.path.join(d, backend.replace(":", "_") + ".job"), os.path.join(d, backend.replace(":", "_") + ".out")
    json.dump({"backend": backend, "histories": hists, "xs": XS}, open(jf, "w"))
    env = common.child_env({"PYTHONPATH": os.path.join(common.ROOT, "shims") + os.pathsep + common.ROOT + os.pathsep + common.REPO,
                            "QAPTOOLS_BIN": os.path.join(common.ROOT, "shims", "qaptools-bin")})
    wd = os.path.join(d, "cwd_" + backend.replace(":", "_"))
    os.makedirs(wd, exist_ok=True)
    p = subprocess.run([common.PY, "-m", "harness.lcworker", jf, of], cwd=wd, env=env, stdout=subprocess.PIPE, stderr=subprocess.PIPE, timeout=1200)
    if p.returncode != 0 or not os.path.exists(of):
        raise common.MachineryError("lcworker %s failed: %s" % (backend, p.stderr.decode("utf8", "replace")[-1500:]))
    return json.load(open(of))


def main(tier):
    run = common.Run("C13", tier)
    design_check(run)
    hists = gen_histories(run, 2)
    hists += gen_histories(run, 5, simulate="num=%d" % (3 if tier == "quick" else 40))
    if tier != "quick":
        h3 = gen_histories(run, 3)
        hists += h3[::7]
    run.samples = [hists[0], hists[-1]]
    from concurrent.futures import ThreadPoolExecutor
    with common.scratch("lc_") as d:
        with ThreadPoolExecutor(6) as ex:
            outs = list(ex.map(lambda b: replay_on(b, hists, d), BACKENDS))
    facts = []
    with common.scratch("lcs_") as d:
        sw = replay_on("zkswitch", [], d)       # field switches inside one process: the same arguments before and after
    facts += sw["facts"]
    for o in outs:
        facts += o["facts"]
        run.evaluations += len(o["traces"])
        for t in o["traces"]:
            run.nontrivial.add(t["id"])
        P = 251 if o["backend"].startswith("recorder") else 0
        # the spec's coefficients are integers for real primes; for the small-prime recorder they are residues (signed-small decoding off)
        traces = o["traces"]
        if P:
            for t in traces:
                for ob in t["base"] + [x for e in t["events"] for x in e["pool"]]:
                    for k in ("a", "b", "c"):
                        ob[k] = ob[k] % P
        chunks = [traces[i:i + 2500] for i in range(0, len(traces), 2500)]
        with ThreadPoolExecutor(4) as ex:
            results = list(ex.map(lambda ch: common._tlc_on_chunk("TraceLinAlg", "TraceLinAlg.cfg", {"traces": ch}, 4, False, False, "3g",
                                                                  consts=None) if not P else
                                  run_small(ch, P), chunks))
        for ci, (ch, res) in enumerate(zip(chunks, results)):
            run.add_tlc(res, "%s #%d" % (o["backend"], ci))
            run.traces += len(ch)
            if res.violated:
                t = ch[int(res.state["tid"]) - 1]
                run.violation({"stage": o["backend"], "invariant": res.violated, "tlc_state": res.state, "trace": t,
                               "summary": "%s on %s after %s: implementation pool %s, spec pool %s" % (
                                   res.violated, t["id"], res.state.get("l"), (t["events"][int(res.state["l"]) - 1]["pool"] if int(res.state.get("l", 0)) else t["base"]), res.state.get("pool"))})
    if not run.violations:
        res = common._tlc_on_chunk("FieldFacts", "FieldFacts.cfg", {"facts": facts}, 8, False, False, "3g")
        run.add_tlc(res, "moduli and inverses (limb arithmetic)")
        run.evaluations += len(facts)
        if res.violated:
            f = facts[int(res.state["tid"]) - 1]
            run.violation({"stage": "field facts", "invariant": res.violated, "tlc_state": res.state, "fact": f,
                           "summary": "%s for backend %s: %s" % (res.violated, f["backend"], {k: f[k] for k in f if k in ("kind", "x", "neg", "raised")})})
    return run.finish(RULE, assumptions=["scalars s + t*p with small s: coefficients stay small integers, so exact comparison is possible for 254-bit primes",
                                         "primality of the curve-order constants is not decided by TLC"],
                      trusted=["TLC 1.8", "harness/lcworker.py (observer; canonicalises term maps)", "shims/flatbuffers (import only)", "shims/qaptools-bin stubs"])


def run_small(ch, P):
    with common.scratch("tr_") as d:
        tf = os.path.join(d, "traces.json")
        json.dump({"traces": ch}, open(tf, "w"))
        cf = os.path.join(d, "run.cfg")
        with open(cf, "w") as f:
            f.write("SPECIFICATION TSpec\nCONSTANT P = %d\nCONSTANT MaxLen = 100\nINVARIANT Inv_Base\nINVARIANT Inv_Pool\nCHECK_DEADLOCK FALSE\nCONSTANT TraceFile = \"%s\"\n" % (P, tf))
        return tlc.run("TraceLinAlg", cfg=cf, workers=4, heap="3g")


def replay(rec):
    return main("quick")
