"""C11: zkinterface files encode the traced circuit; the verifier file has no witness (ZkifFile.tla on independently decoded files)."""
import json
import os

from harness import common, gen
from harness.decoders import zkif
from checks import c10_check

RULE = ("programs as for C10 run on pysnark.zkinterface.backend in its three field configurations (bn128, bls12-381, curve25519) and over a "
        "small prime through the public set_modulus; computation.zkif and circuit.zkif decoded by an independent FlatBuffers reader; twin runs "
        "with equal public and different private values for byte-identity of circuit.zkif; distinct = (configuration, program)")

ORDERS = {"zkinterface": c10_check.P_BN,
          "zkifbellman": 52435875175126190479447740508185965837690552500527637822603658699938581184513,
          "zkifbulletproofs": 7237005577332262213973186563042994240857116359379907606001950938285454250989}


def norm_vars(v):
    vals, sz, ok = zkif.split_values(v)
    return {"ids": [i if i < (1 << 30) else -1 for i in v["ids"]], "vals": [list(x) for x in vals], "valsok": bool(ok), "elsize": sz}


def decode(path):
    empty = {"type": "none", "ids": [], "vals": [], "valsok": True, "elsize": 0, "free": -1, "fmax": [], "cons": []}
    try:
        r = zkif.read_file(path)
    except Exception as e:  # a file the reader cannot parse is not well-formed; TLC reports it via Inv_Framing
        return {"ok": False, "err": "%s: %s" % (type(e).__name__, e), "msgs": []}, b""
    msgs = []
    for m in r["messages"]:
        d = dict(empty, type=m["type"])
        if m["type"] == "CircuitHeader":
            d.update(norm_vars(m["instance"]))
            d["free"] = m["free_variable_id"] if m["free_variable_id"] < (1 << 30) else -1
            d["fmax"] = list(m["field_maximum"])
        elif m["type"] == "Witness":
            d.update(norm_vars(m["assigned"]))
        elif m["type"] == "ConstraintSystem":
            d["cons"] = [[norm_vars(v) for v in c] for c in m["constraints"]]
        msgs.append(d)
    return {"ok": True, "err": "", "msgs": msgs}, r["bytes"]


def satcerts(comp, p):
    try:
        hdr, wit, cs = comp["msgs"][0], comp["msgs"][1], comp["msgs"][2]["cons"]
        npub = len(hdr["ids"])
        val = {0: 1}
        for i, v in zip(hdr["ids"], hdr["vals"]):
            val[i] = c10_check.toint(v)
        for i, v in zip(wit["ids"], wit["vals"]):
            val[i] = c10_check.toint(v)
        out = []
        for con in cs:
            ev = [sum(c10_check.toint(c) * val.get(i, 0) for i, c in zip(lc["ids"], lc["vals"])) for lc in con]
            d = ev[0] * ev[1] - ev[2]
            out.append({"neg": d < 0, "k": c10_check.limbs(abs(d) // p)})
        return out
    except Exception:
        return []


def twin(prog):
    """same program, every private input value changed (public values and program text equal)"""
    t = json.loads(json.dumps(prog))
    t["id"] = prog["id"] + "~twin"
    changed = False
    for st in t["steps"]:
        if st.get("op") == "new" and st.get("kind") == "priv" and st.get("ty") == "int" and st.get("tag") != "cond":
            st["v"] = st["v"] + 1 if st["v"] < 2 else st["v"] - 1
            changed = True
    return t if changed else None


def main(tier):
    run = common.Run("C11", tier)
    from concurrent.futures import ThreadPoolExecutor
    plan = [("zkinterface", 251), ("zkinterface", 0), ("zkifbellman", 0), ("zkifbulletproofs", 0)]
    if tier != "quick":
        plan += [("zkifbellman", 32749), ("zkifbulletproofs", 13)]
    for backend, smallp in plan:
        progs = c10_check.programs(tier, common.seed(), bool(smallp))
        if not smallp and backend != "zkinterface":
            progs = progs[::2]
        # twins only for straight-line programs that complete (same constraints by C06)
        twins = {}
        for op in ("add", "mul", "lt", "eq", "and", "sub", "floordiv"):
            for (a, c) in ((3, 2), (1, -2)):
                B = gen.Builder("twinbase/%s/%d,%d" % (op, a, c), "plain", None, {"op": op})
                ra, rb = B.opnd(("S", a)), B.opnd(("U", c))
                B.add({"op": "bin", "name": op, "a": ra, "b": rb})
                B.add({"op": "bin", "name": "mul", "a": rb, "b": rb})
                pb = B.build()
                progs.append(pb)
                t = twin(pb)
                twins[pb["id"]] = t
                progs.append(t)
        with common.scratch("zkif_") as d:
            runs = c10_check.run_backend(backend, smallp or None, progs, d)
            p = smallp or ORDERS[backend]
            bl = (p.bit_length() + 7) // 8
            byid, cases = {}, []
            for r, pr in zip(runs, progs):
                if not r["proved"]:
                    raise common.MachineryError("prove() failed for %s: %s" % (r["id"], r["err"]))
                comp, _ = decode(os.path.join(r["workdir"], "computation.zkif"))
                circ, cb = decode(os.path.join(r["workdir"], "circuit.zkif"))
                byid[r["id"]] = (r, pr, comp, circ, cb)
            for pid, (r, pr, comp, circ, cb) in byid.items():
                if pid.endswith("~twin"):
                    continue
                tw = byid.get(pid + "~twin")
                hastwin = bool(tw) and not r["raised"] and not tw[0]["raised"] and len(cb) < 6000
                cases.append({"id": pid, "backend": backend, "smallp": smallp, "bl": bl, "raised": r["raised"], "ign": bool(pr.get("ign")),
                              "trace": r["trace"], "computation": comp, "circuit": circ, "satcert": satcerts(comp, p),
                              "hastwin": hastwin, "circbytes": list(cb) if hastwin else [], "twincircbytes": list(tw[4]) if hastwin else [],
                              "reported_backend": r["backend_name"]})
        run.evaluations += len(cases)
        for c in cases:
            run.nontrivial.add((backend, smallp, c["id"]))
        if not run.samples:
            c = cases[5]
            run.samples.append({"id": c["id"], "backend": backend, "message_types": [m["type"] for m in c["computation"]["msgs"]], "header_ids": c["computation"]["msgs"][0]["ids"] if c["computation"]["msgs"] else None})
        chunk = 40 if smallp else 4
        chunks = [cases[i:i + chunk] for i in range(0, len(cases), chunk)]
        with ThreadPoolExecutor(8) as ex:
            results = list(ex.map(lambda ch: common._tlc_on_chunk("ZkifFile", "ZkifFile.cfg", {"cases": ch}, 2, False, False, "3g"), chunks))
        for ci, (ch, res) in enumerate(zip(chunks, results)):
            run.add_tlc(res, "%s p=%s #%d" % (backend, smallp or "curve order", ci))
            run.traces += len(ch)
            if res.violated:
                c = ch[int(res.state["tid"]) - 1]
                pr = next(p_ for p_ in progs if p_["id"] == c["id"])
                run.violation({"stage": "%s p=%s" % (backend, smallp or "order"), "invariant": res.violated, "tlc_state": res.state, "backend": backend, "smallp": smallp,
                               "program": pr, "parse_errors": [c["computation"]["err"], c["circuit"]["err"]],
                               "summary": "%s for the zkinterface files of program %s (%s, p=%s) %s" % (res.violated, c["id"], backend, smallp or "curve order", c["computation"]["err"] or c["circuit"]["err"])})
        if run.violations:
            break
    return run.finish(RULE, assumptions=["the FlatBuffers builder used is the sandbox shim shims/flatbuffers (upstream package absent): what is verified is pysnark's use of the builder API plus that builder",
                                         "real-field congruences from harness-supplied quotient certificates, identities decided by TLC"],
                      trusted=["TLC 1.8", "harness/decoders/zkif.py (reader written against zkinterface.fbs)", "shims/flatbuffers builder", "harness/filerun.py (observer)"])


def replay(rec):
    return main("quick")
