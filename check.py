#!/venv/bin/python
"""Entry point: check.py --property Cxx --tier quick|thorough   |   check.py --replay <path>"""
import argparse
import importlib
import json
import os
import sys
import traceback

ROOT = os.path.dirname(os.path.abspath(__file__))
sys.path.insert(0, ROOT)
os.environ.setdefault("PYTHONHASHSEED", "0")
sys.dont_write_bytecode = True

from harness import common  # noqa


def main():
    ap = argparse.ArgumentParser()
    ap.add_argument("--property")
    ap.add_argument("--tier", default=os.environ.get("VERIF_TIER", "quick"))
    ap.add_argument("--replay")
    a = ap.parse_args()
    try:
        if a.replay:
            rec = json.load(open(a.replay))
            mod = importlib.import_module("checks." + rec["property"].lower() + "_check")
            return mod.replay(rec)
        mod = importlib.import_module("checks." + a.property.lower() + "_check")
        return mod.main(a.tier)
    except common.MachineryError as e:
        print("MACHINERY-FAILURE: " + str(e), file=sys.stderr)
        return 2
    except Exception:
        traceback.print_exc()
        return 2


if __name__ == "__main__":
    sys.exit(main())
